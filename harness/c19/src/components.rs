//! The building blocks of the index, driven directly: every exported constructor of the suffix
//! array, inverse suffix array and psi structures (usize width, u32 width, from-SA-and-ISA), the
//! suffix sorters, and caller-chosen sampling rates.  `Document::construct` reaches only the u32
//! constructors with sampling 6 (the usize ones would need a text of 4 Gi symbols).
//!
//! Oracle: suffix array, inverse and psi computed here by sorting the suffixes of the text with
//! `slice::cmp` (a proper prefix sorts first, which is what the internal end marker means).

use std::collections::BTreeSet;

use buffertk::Unpackable;
use proptest::prelude::*;
use scrunch::builder::Builder;
use scrunch::isa::{InverseSuffixArray, ReferenceInverseSuffixArray, SampledInverseSuffixArray};
use scrunch::psi::{Psi, ReferencePsi};
use scrunch::sa::{ReferenceSuffixArray, SampledSuffixArray, SuffixArray};
use scrunch::sigma::Sigma;
use serde::{Deserialize, Serialize};
use vcore::gens::sel;
use vcore::{Ctx, Outcome, Property, Tier};

use crate::docs::show_syms;
use crate::mixes::{WtFixed, WtHuffman, WtReference};
use crate::textgen::{distinct_symbols, text_strategy};

#[derive(Clone, Debug, Serialize, Deserialize)]
pub struct CompCase {
    pub class: String,
    pub alpha: String,
    pub text: Vec<u32>,
    /// suffix-array sampling exponent handed to `SuffixArray::construct*`
    pub sampling: usize,
    /// text positions handed to `InverseSuffixArray::construct*` (ascending, distinct, <= len)
    pub to_sample: Vec<usize>,
    /// which psi structure: 0 reference, 1 wavelet<huffman>, 2 wavelet<fixed>, 3 wavelet<reference tree>
    pub psi_impl: usize,
    /// selectors for `constrain` / predecessor queries: (kind, symbol of the range, symbol of `into`, lo, hi)
    pub queries: Vec<(u8, u16, u16, u16, u16)>,
}

pub const PSI_IMPLS: [&str; 4] = ["refPsi", "wtPsi<prefix<huffman>>", "wtPsi<prefix<fixed>>", "wtPsi<reference>"];

pub struct Components;

/// Ground truth for one text.
pub struct Truth {
    pub n: usize,
    pub distinct: Vec<u32>,
    /// suffix array over text + end marker: `sa[0] == n`
    pub sa: Vec<usize>,
    pub isa: Vec<usize>,
    pub psi: Vec<usize>,
    /// sigma symbol (1-based rank of the code point; 0 = end marker) of the suffix at each sa index
    pub first: Vec<u32>,
    /// closed sa-index interval of each sigma symbol (index 0 = end marker = (0, 0))
    pub ranges: Vec<(usize, usize)>,
}

pub fn truth(text: &[u32]) -> Truth {
    let n = text.len();
    let distinct = distinct_symbols(text);
    let mut sa: Vec<usize> = (0..=n).collect();
    sa.sort_by(|a, b| text[*a..].cmp(&text[*b..]));
    let mut isa = vec![0usize; n + 1];
    for (i, p) in sa.iter().enumerate() {
        isa[*p] = i;
    }
    // psi[i] = isa[sa[i] + 1], wrapping from the end marker to the start of the text
    let psi: Vec<usize> = sa.iter().map(|p| if *p == n { isa[0] } else { isa[*p + 1] }).collect();
    let first: Vec<u32> = sa.iter().map(|p| if *p == n { 0 } else { distinct.binary_search(&text[*p]).unwrap() as u32 + 1 }).collect();
    let mut ranges = vec![(1usize, 0usize); distinct.len() + 1];
    ranges[0] = (0, 0);
    for (i, s) in first.iter().enumerate().skip(1) {
        let r = &mut ranges[*s as usize];
        if r.0 > r.1 {
            *r = (i, i);
        } else {
            r.1 = i;
        }
    }
    Truth { n, distinct, sa, isa, psi, first, ranges }
}

impl Truth {
    /// Indices of `range` whose successor lies in `into` (both closed); psi is increasing inside one
    /// symbol's range, so the answer is an interval.  `None` = empty.
    pub fn constrain(&self, range: (usize, usize), into: (usize, usize)) -> Option<(usize, usize)> {
        if range.0 > range.1 || into.0 > into.1 {
            return None;
        }
        let hits: Vec<usize> = (range.0..=range.1).filter(|i| self.psi[*i] >= into.0 && self.psi[*i] <= into.1).collect();
        if hits.is_empty() { None } else { Some((hits[0], hits[hits.len() - 1])) }
    }
}

fn build(f: impl FnOnce(&mut Builder<'_, Vec<u8>>) -> Result<(), scrunch::Error>) -> Result<Vec<u8>, scrunch::Error> {
    let mut buf = Vec::new();
    let mut builder = Builder::new(&mut buf);
    f(&mut builder)?;
    drop(builder);
    Ok(buf)
}

fn same_interval(got: (usize, usize), want: Option<(usize, usize)>) -> bool {
    match want {
        Some(w) => got == w,
        None => got.0 > got.1,
    }
}

struct Q {
    kind: &'static str,
    range_sym: usize,
    into: (usize, usize),
}

fn realise_queries(c: &CompCase, t: &Truth) -> Vec<Q> {
    let k = t.distinct.len();
    let mut out = vec![];
    for (kind, rs, is, lo, hi) in c.queries.iter() {
        let range_sym = 1 + sel(*rs, k);
        let (a, b) = t.ranges[1 + sel(*is, k)];
        let (kind, into) = match kind % 8 {
            // what backward search passes: a whole symbol range, or part of one
            0 | 1 => ("into=whole-symbol-range", (a, b)),
            2..=4 => {
                let x = a + sel(*lo, b - a + 1);
                let y = x + sel(*hi, b - x + 1);
                ("into=part-of-a-symbol-range", (x, y))
            }
            5 => ("into=empty", (1, 0)),
            // any closed interval of suffix-array indices
            _ => {
                let x = sel(*lo, t.n + 1);
                let y = x + sel(*hi, t.n + 1 - x);
                ("into=any-interval", (x, y))
            }
        };
        out.push(Q { kind, range_sym, into });
    }
    out
}

/// One psi structure built by one constructor: length, every entry, constrain, predecessors.
fn check_psi<P: Psi>(tag: &str, p: &P, sigma: &Sigma, c: &CompCase, t: &Truth, qs: &[Q], o: &mut Outcome) {
    let ctx = || format!("text[{}]={}", t.n, show_syms(&c.text));
    if p.len() != t.n + 1 {
        o.fail(format!("{tag}:len"), format!("{tag}.len() = {}, text + end marker has {} symbols; {}", p.len(), t.n + 1, ctx()));
        return;
    }
    for i in 0..=t.n {
        match p.lookup(sigma, i) {
            Ok(v) if v == t.psi[i] => {}
            other => {
                o.fail(format!("{tag}:lookup"), format!("{tag}.lookup({i}) = {other:?}, psi[{i}] = {}; {}", t.psi[i], ctx()));
                return;
            }
        }
    }
    for q in qs.iter() {
        let range = t.ranges[q.range_sym];
        let want = t.constrain(range, q.into);
        o.label(format!("constrain:{}:{}", q.kind, if want.is_some() { "non-empty" } else { "empty" }));
        match p.constrain(sigma, range, q.into) {
            Ok(got) if same_interval(got, want) => {}
            other => {
                o.fail(
                    format!("{tag}:constrain"),
                    format!(
                        "{tag}.constrain(range of symbol #{} = {range:?}, into {:?}) = {other:?}, by psi the answer is {want:?} ({}); {}",
                        q.range_sym,
                        q.into,
                        q.kind,
                        ctx()
                    ),
                );
                return;
            }
        }
        if q.into.0 > q.into.1 {
            continue;
        }
        // predecessors of `into`: every symbol (end marker aside) with a non-empty constrain
        let want: Vec<(u32, (usize, usize))> = (1..=t.distinct.len()).filter_map(|s| t.constrain(t.ranges[s], q.into).map(|r| (s as u32, r))).collect();
        let mut syms = vec![77u32];
        match p.predecessor_sigma_symbols(sigma, q.into, &mut syms) {
            Ok(true) => {
                o.label("predecessor_sigma_symbols:answered");
                let got: BTreeSet<u32> = syms.iter().copied().filter(|s| *s != 0).collect();
                let w: BTreeSet<u32> = want.iter().map(|x| x.0).collect();
                if got != w {
                    o.fail(
                        format!("{tag}:predecessor_sigma_symbols"),
                        format!("{tag}.predecessor_sigma_symbols({:?}) = {syms:?}, the symbols preceding that interval are {w:?}; {}", q.into, ctx()),
                    );
                    return;
                }
            }
            Ok(false) => o.label("predecessor_sigma_symbols:declined"),
            Err(e) => {
                o.fail(format!("{tag}:predecessor_sigma_symbols-error"), format!("{tag}.predecessor_sigma_symbols({:?}) = Err({e:?}); {}", q.into, ctx()));
                return;
            }
        }
        let mut rs = vec![(77u32, (5usize, 3usize))];
        match p.predecessor_sigma_ranges(sigma, q.into, &mut rs) {
            Ok(true) => {
                o.label(format!("predecessor_sigma_ranges:answered:{}", if want.len() >= 2 { ">=2-predecessors" } else { "<2-predecessors" }));
                let mut got: Vec<(u32, (usize, usize))> = rs.iter().copied().filter(|x| x.0 != 0 && x.1.0 <= x.1.1).collect();
                got.sort();
                if got != want {
                    o.fail(
                        format!("{tag}:predecessor_sigma_ranges"),
                        format!("{tag}.predecessor_sigma_ranges({:?}) = {rs:?}, by psi the preceding symbols and their intervals are {want:?}; {}", q.into, ctx()),
                    );
                    return;
                }
            }
            Ok(false) => o.label("predecessor_sigma_ranges:declined"),
            Err(e) => {
                o.fail(format!("{tag}:predecessor_sigma_ranges-error"), format!("{tag}.predecessor_sigma_ranges({:?}) = Err({e:?}); {}", q.into, ctx()));
                return;
            }
        }
    }
}

/// All three constructors of psi structure `P`, each parsed and checked.
macro_rules! psi_all_ctors {
    ($P:ty, $name:expr, $sigma:expr, $c:expr, $t:expr, $qs:expr, $sa32:expr, $isa32:expr, $psi32:expr, $o:ident) => {{
        let ctors: [(&str, Result<Vec<u8>, scrunch::Error>); 3] = [
            ("construct(usize)", build(|b| <$P as Psi>::construct($sigma, &$t.psi, b))),
            ("construct_u32", build(|b| <$P as Psi>::construct_u32($sigma, $psi32, b))),
            ("construct_from_sa_isa_u32", build(|b| <$P as Psi>::construct_from_sa_isa_u32($sigma, $sa32, $isa32, b))),
        ];
        let mut bytes: Vec<&Vec<u8>> = vec![];
        for (ctor, r) in ctors.iter() {
            let tag = format!("{}::{}", $name, ctor);
            match r {
                Err(e) => {
                    $o.fail(format!("{tag}:error"), format!("{tag} = Err({e:?}); text[{}]={}", $t.n, show_syms(&$c.text)));
                    break;
                }
                Ok(buf) => match <$P as Unpackable>::unpack(buf) {
                    Ok((p, _)) => {
                        check_psi(&tag, &p, $sigma, $c, $t, $qs, &mut $o);
                        bytes.push(buf);
                    }
                    Err(e) => $o.fail(format!("{tag}:unpack-error"), format!("unpack of the bytes of {tag} = Err({e:?}); text[{}]={}", $t.n, show_syms(&$c.text))),
                },
            }
            if $o.failed() {
                break;
            }
        }
        if bytes.len() == 3 {
            $o.label(if bytes[0] == bytes[1] && bytes[1] == bytes[2] { "psi-bytes:all-constructors-identical" } else { "psi-bytes:constructors-differ" });
        }
    }};
}

fn check_sa<S: SuffixArray, P: Psi>(tag: &str, s: &S, sigma: &Sigma, psi: &P, c: &CompCase, t: &Truth, o: &mut Outcome) {
    for i in 0..=t.n {
        match s.lookup(sigma, psi, i) {
            Ok(v) if v == t.sa[i] => {}
            other => {
                o.fail(
                    format!("{tag}:lookup"),
                    format!("{tag}.lookup({i}) = {other:?} with sampling {}, SA[{i}] = {}; text[{}]={}", c.sampling, t.sa[i], t.n, show_syms(&c.text)),
                );
                return;
            }
        }
    }
}

fn check_isa<I: InverseSuffixArray>(tag: &str, x: &I, sampled_only: bool, c: &CompCase, t: &Truth, o: &mut Outcome) {
    for p in 0..=t.n {
        let must = !sampled_only || c.to_sample.binary_search(&p).is_ok();
        match x.lookup(p) {
            Ok(v) if v == t.isa[p] => {}
            Err(_) if !must => {}
            other => {
                o.fail(
                    format!("{tag}:lookup"),
                    format!("{tag}.lookup({p}) = {other:?}, ISA[{p}] = {} (sampled positions {:?}); text[{}]={}", t.isa[p], c.to_sample, t.n, show_syms(&c.text)),
                );
                return;
            }
        }
    }
}

fn sampling_class(s: usize) -> &'static str {
    match s {
        0 => "0(every-entry)",
        1..=5 => "1-5",
        6 => "6(default)",
        7..=10 => "7-10",
        31 => "31(largest-for-u32)",
        32 => "32(beyond-u32)",
        63 => "63(largest-for-usize)",
        _ => ">=64(beyond-usize)",
    }
}

impl Property for Components {
    type Case = CompCase;
    fn name(&self) -> String {
        "index-components".into()
    }
    fn cases(&self, tier: Tier) -> u64 {
        tier.pick(350, 6_000)
    }
    fn strategy(&self, ctx: &Ctx) -> BoxedStrategy<CompCase> {
        let max_len = ctx.tier.pick(400, 900);
        let sampling = prop_oneof![
            2 => Just(0usize),
            6 => 1usize..=5,
            3 => Just(6usize),
            3 => 7usize..=10,
            1 => Just(31usize),
            1 => Just(32usize),
            1 => Just(63usize),
            1 => Just(64usize),
        ];
        (
            text_strategy(max_len, 700).prop_filter("non-empty", |(_, _, t)| !t.is_empty()),
            sampling,
            prop::collection::vec(any::<u16>(), 1..=24),
            0usize..4,
            prop::collection::vec((any::<u8>(), any::<u16>(), any::<u16>(), any::<u16>(), any::<u16>()), 6..=16),
        )
            .prop_map(|((alpha, class, text), sampling, ts, psi_impl, queries)| {
                let n = text.len();
                let mut to_sample: Vec<usize> = ts.iter().map(|x| sel(*x, n + 1)).collect();
                to_sample.sort();
                to_sample.dedup();
                CompCase { class, alpha, text, sampling, to_sample, psi_impl, queries }
            })
            .boxed()
    }
    fn max_shrink_iters(&self) -> u32 {
        400
    }
    fn run(&self, _: &Ctx, c: &CompCase) -> Outcome {
        let mut o = Outcome::pass();
        if c.text.is_empty() || c.to_sample.is_empty() {
            o.label("skipped:empty");
            return o;
        }
        let t = truth(&c.text);
        let ctx = || format!("text[{}]={}", t.n, show_syms(&c.text));
        o.label(format!("text:{}", c.class));
        o.label(format!("alphabet-family:{}", c.alpha));
        o.label(format!("sampling:{}", sampling_class(c.sampling)));
        o.label(format!("psi:{}", PSI_IMPLS[c.psi_impl.min(3)]));
        o.label(match t.distinct.len() + 1 {
            0..=256 => "K<=256(u8-symbols)",
            _ => "K>256(u16-symbols)",
        });
        o.nontrivial = t.n >= 8 && t.distinct.len() >= 2;

        // --- sigma: built and re-parsed exactly as Document::construct does
        let sbuf = match build(|b| Sigma::construct(c.text.iter().copied(), b)) {
            Ok(b) => b,
            Err(e) => {
                o.fail("sigma:construct-error", format!("Sigma::construct = Err({e:?}); {}", ctx()));
                return o;
            }
        };
        let sigma = match Sigma::unpack(&sbuf) {
            Ok((s, _)) => s,
            Err(e) => {
                o.fail("sigma:unpack-error", format!("Sigma::unpack = Err({e:?}); {}", ctx()));
                return o;
            }
        };
        if sigma.K() != t.distinct.len() + 1 {
            o.fail("sigma:K", format!("Sigma::K() = {}, the text has {} distinct symbols (+1 end marker); {}", sigma.K(), t.distinct.len(), ctx()));
            return o;
        }
        for (i, d) in t.distinct.iter().enumerate() {
            let got = (sigma.char_to_sigma(*d), sigma.sigma_to_char(i as u32 + 1), sigma.sa_range_for(*d));
            if got != (Some(i as u32 + 1), Some(*d), Ok(t.ranges[i + 1])) {
                o.fail(
                    "sigma:symbol-table",
                    format!("code point {d} is symbol #{} with suffix-array interval {:?}; Sigma says (char_to_sigma, sigma_to_char, sa_range_for) = {got:?}; {}", i + 1, t.ranges[i + 1], ctx()),
                );
                return o;
            }
        }
        for i in 0..=t.n {
            let want_t = if i == 0 { None } else { Some(c.text[t.sa[i]]) };
            let got = (sigma.sa_index_to_sigma(i), sigma.sa_index_to_t(i));
            if got != (Some(t.first[i]), want_t) {
                o.fail(
                    "sigma:sa_index",
                    format!("suffix #{i} starts with symbol #{} ({want_t:?}); Sigma says (sa_index_to_sigma, sa_index_to_t) = {got:?}; {}", t.first[i], ctx()),
                );
                return o;
            }
        }

        // --- suffix sorting, every width
        let s32: Vec<u32> = c.text.iter().map(|x| t.distinct.binary_search(x).unwrap() as u32 + 1).chain(std::iter::once(0)).collect();
        let sa32: Vec<u32> = t.sa.iter().map(|x| *x as u32).collect();
        let isa32: Vec<u32> = t.isa.iter().map(|x| *x as u32).collect();
        let psi32: Vec<u32> = t.psi.iter().map(|x| *x as u32).collect();
        {
            let mut out = vec![0usize; t.n + 1];
            let r = scrunch::sais::sais(&sigma, &s32, &mut out);
            if r.is_err() || out != t.sa {
                o.fail("sais(usize)", format!("sais::sais = {r:?} gives {:?}, sorting the suffixes gives {:?}; {}", &out[..out.len().min(40)], &t.sa[..t.sa.len().min(40)], ctx()));
                return o;
            }
            let mut out = vec![0u32; t.n + 1];
            let r = scrunch::sais::sais_u32(&sigma, &s32, &mut out);
            if r.is_err() || out != sa32 {
                o.fail("sais_u32", format!("sais::sais_u32 = {r:?} gives {:?}, sorting the suffixes gives {:?}; {}", &out[..out.len().min(40)], &sa32[..sa32.len().min(40)], ctx()));
                return o;
            }
            if sigma.K() <= 65_536 {
                let s16: Vec<u16> = s32.iter().map(|x| *x as u16).collect();
                let mut out = vec![0u32; t.n + 1];
                let r = scrunch::sais::sais_u16_u32(&sigma, &s16, &mut out);
                if r.is_err() || out != sa32 {
                    o.fail("sais_u16_u32", format!("sais::sais_u16_u32 = {r:?} gives {:?}, sorting the suffixes gives {:?}; {}", &out[..out.len().min(40)], &sa32[..sa32.len().min(40)], ctx()));
                    return o;
                }
            }
            if sigma.K() <= 256 {
                let s8: Vec<u8> = s32.iter().map(|x| *x as u8).collect();
                let mut out = vec![0u32; t.n + 1];
                let r = scrunch::sais::sais_u8_u32(&sigma, &s8, &mut out);
                if r.is_err() || out != sa32 {
                    o.fail("sais_u8_u32", format!("sais::sais_u8_u32 = {r:?} gives {:?}, sorting the suffixes gives {:?}; {}", &out[..out.len().min(40)], &sa32[..sa32.len().min(40)], ctx()));
                    return o;
                }
            }
        }

        // --- psi from the inverse suffix array, three ways
        let p1 = scrunch::psi::compute(&t.isa);
        let p2 = scrunch::psi::compute_u32(&isa32);
        let p3 = scrunch::psi::compute_from_sa_isa_u32(&sa32, &isa32);
        if p1 != t.psi || p2 != psi32 || p3 != psi32 {
            let which = if p1 != t.psi { "compute" } else if p2 != psi32 { "compute_u32" } else { "compute_from_sa_isa_u32" };
            o.fail(format!("psi::{which}"), format!("psi::{which} differs from psi[i] = ISA[SA[i] + 1] = {:?}; {}", &t.psi[..t.psi.len().min(40)], ctx()));
            return o;
        }

        // --- the psi structure, all three constructors
        let qs = realise_queries(c, &t);
        match c.psi_impl {
            0 => psi_all_ctors!(ReferencePsi, PSI_IMPLS[0], &sigma, c, &t, &qs, &sa32, &isa32, &psi32, o),
            1 => psi_all_ctors!(WtHuffman<'_>, PSI_IMPLS[1], &sigma, c, &t, &qs, &sa32, &isa32, &psi32, o),
            2 => psi_all_ctors!(WtFixed<'_>, PSI_IMPLS[2], &sigma, c, &t, &qs, &sa32, &isa32, &psi32, o),
            _ => psi_all_ctors!(WtReference<'_>, PSI_IMPLS[3], &sigma, c, &t, &qs, &sa32, &isa32, &psi32, o),
        }
        if o.failed() {
            return o;
        }

        // --- suffix arrays: reference and sampled, both widths, the generated sampling rate
        let rpsi = ReferencePsi::new(&t.psi);
        let s = c.sampling;
        let sa_builds: [(&str, bool, usize, Result<Vec<u8>, scrunch::Error>); 4] = [
            ("ReferenceSuffixArray::construct(usize)", false, 64, build(|b| ReferenceSuffixArray::construct(s, &t.sa, b))),
            ("ReferenceSuffixArray::construct_u32", false, 64, build(|b| ReferenceSuffixArray::construct_u32(s, &sa32, b))),
            ("SampledSuffixArray::construct(usize)", true, 63, build(|b| SampledSuffixArray::construct(s, &t.sa, b))),
            ("SampledSuffixArray::construct_u32", true, 31, build(|b| SampledSuffixArray::construct_u32(s, &sa32, b))),
        ];
        for (tag, sampled, max_rate, r) in sa_builds.iter() {
            match r {
                Ok(buf) => {
                    if *sampled {
                        match SampledSuffixArray::unpack(buf) {
                            Ok((x, _)) => check_sa(tag, &x, &sigma, &rpsi, c, &t, &mut o),
                            Err(e) => o.fail(format!("{tag}:unpack-error"), format!("unpack of the bytes of {tag} = Err({e:?}); {}", ctx())),
                        }
                    } else {
                        match ReferenceSuffixArray::unpack(buf) {
                            Ok((x, _)) => check_sa(tag, &x, &sigma, &rpsi, c, &t, &mut o),
                            Err(e) => o.fail(format!("{tag}:unpack-error"), format!("unpack of the bytes of {tag} = Err({e:?}); {}", ctx())),
                        }
                    }
                }
                // A sampled array may refuse a rate its word cannot hold; rates up to 10 and the
                // reference array must always work.
                Err(e) => {
                    if !*sampled || s <= 10 {
                        o.fail(format!("{tag}:error"), format!("{tag} with sampling {s} = Err({e:?}); {}", ctx()));
                    } else {
                        o.label(format!("sampled-sa-refused:sampling{}{}", if s > *max_rate { ">" } else { "<=" }, max_rate));
                    }
                }
            }
            if o.failed() {
                return o;
            }
        }

        // --- inverse suffix arrays: reference and sampled at the generated positions
        o.label(format!("isa-samples:{}", if c.to_sample.contains(&t.n) { "incl-end-marker-position" } else { "text-positions-only" }));
        let isa_builds: [(&str, bool, Result<Vec<u8>, scrunch::Error>); 4] = [
            ("ReferenceInverseSuffixArray::construct(usize)", false, build(|b| ReferenceInverseSuffixArray::construct(&t.isa, &c.to_sample, b))),
            ("ReferenceInverseSuffixArray::construct_u32", false, build(|b| ReferenceInverseSuffixArray::construct_u32(&isa32, &c.to_sample, b))),
            ("SampledInverseSuffixArray::construct(usize)", true, build(|b| SampledInverseSuffixArray::construct(&t.isa, &c.to_sample, b))),
            ("SampledInverseSuffixArray::construct_u32", true, build(|b| SampledInverseSuffixArray::construct_u32(&isa32, &c.to_sample, b))),
        ];
        for (tag, sampled, r) in isa_builds.iter() {
            match r {
                Ok(buf) => {
                    if *sampled {
                        match SampledInverseSuffixArray::unpack(buf) {
                            Ok((x, _)) => check_isa(tag, &x, true, c, &t, &mut o),
                            Err(e) => o.fail(format!("{tag}:unpack-error"), format!("unpack of the bytes of {tag} = Err({e:?}); {}", ctx())),
                        }
                    } else {
                        match ReferenceInverseSuffixArray::unpack(buf) {
                            Ok((x, _)) => check_isa(tag, &x, false, c, &t, &mut o),
                            Err(e) => o.fail(format!("{tag}:unpack-error"), format!("unpack of the bytes of {tag} = Err({e:?}); {}", ctx())),
                        }
                    }
                }
                Err(e) => o.fail(format!("{tag}:error"), format!("{tag} sampling positions {:?} = Err({e:?}); {}", c.to_sample, ctx())),
            }
            if o.failed() {
                return o;
            }
        }
        o
    }
}
