//! `PsiDocument<SA, ISA, PSI>` is generic: the crate exports two suffix arrays, two inverse suffix
//! arrays and four psi structures as interchangeable building blocks, and `CompressedDocument` is
//! only one of the sixteen combinations.  The parts here run the same `Document` oracle (naive
//! scan) over other combinations, and over alphabets beyond the u16 symbol width.

use buffertk::Unpackable;
use proptest::prelude::*;
use scrunch::encoder::{FixedWidthEncoder, HuffmanEncoder};
use scrunch::isa::{ReferenceInverseSuffixArray as RefIsa, SampledInverseSuffixArray as SampIsa};
use scrunch::psi::ReferencePsi as RefPsi;
use scrunch::psi::wavelet_tree::WaveletTreePsi;
use scrunch::sa::{ReferenceSuffixArray as RefSa, SampledSuffixArray as SampSa};
use scrunch::wavelet_tree::ReferenceWaveletTree as RefWt;
use scrunch::wavelet_tree::prefix::WaveletTree as PrefixWt;
use scrunch::{CompressedDocument, PsiDocument};
use serde::{Deserialize, Serialize};
use vcore::gens::sel;
use vcore::{Ctx, Outcome, Property, Tier};

use crate::docs::{Model, check_queries, construct, describe, show_case};
use crate::textgen::{DocCase, boundaries_valid, distinct_symbols, doc_case, doc_case_from_text};

pub type WtHuffman<'a> = WaveletTreePsi<'a, PrefixWt<'a, HuffmanEncoder>>;
pub type WtFixed<'a> = WaveletTreePsi<'a, PrefixWt<'a, FixedWidthEncoder>>;
pub type WtReference<'a> = WaveletTreePsi<'a, RefWt>;

/// The combinations exercised (of 2 x 2 x 4); names are `SA+ISA+PSI`.
pub const MIXES: [&str; 11] = [
    "refSA+refISA+refPsi",
    "sampledSA+refISA+refPsi",
    "refSA+sampledISA+refPsi",
    "sampledSA+sampledISA+refPsi",
    "refSA+refISA+wtPsi<reference>",
    "refSA+refISA+wtPsi<prefix<fixed>>",
    "refSA+refISA+wtPsi<prefix<huffman>>",
    "sampledSA+sampledISA+wtPsi<reference>",
    "sampledSA+sampledISA+wtPsi<prefix<fixed>>",
    "sampledSA+refISA+wtPsi<prefix<huffman>>",
    "sampledSA+sampledISA+wtPsi<prefix<huffman>>(=CompressedDocument)",
];

/// The mixes other than the `CompressedDocument` alias (which the older parts cover).
pub const OTHER_MIXES: usize = 10;

/// Expand `$body` with `$D` bound to the document type of mix number `$mix`.
#[macro_export]
macro_rules! with_mix {
    ($mix:expr, $D:ident => $body:block) => {
        match $mix {
            0 => { type $D<'x> = PsiDocument<'x, RefSa, RefIsa, RefPsi>; $body }
            1 => { type $D<'x> = PsiDocument<'x, SampSa<'x>, RefIsa, RefPsi>; $body }
            2 => { type $D<'x> = PsiDocument<'x, RefSa, SampIsa<'x>, RefPsi>; $body }
            3 => { type $D<'x> = PsiDocument<'x, SampSa<'x>, SampIsa<'x>, RefPsi>; $body }
            4 => { type $D<'x> = PsiDocument<'x, RefSa, RefIsa, WtReference<'x>>; $body }
            5 => { type $D<'x> = PsiDocument<'x, RefSa, RefIsa, WtFixed<'x>>; $body }
            6 => { type $D<'x> = PsiDocument<'x, RefSa, RefIsa, WtHuffman<'x>>; $body }
            7 => { type $D<'x> = PsiDocument<'x, SampSa<'x>, SampIsa<'x>, WtReference<'x>>; $body }
            8 => { type $D<'x> = PsiDocument<'x, SampSa<'x>, SampIsa<'x>, WtFixed<'x>>; $body }
            9 => { type $D<'x> = PsiDocument<'x, SampSa<'x>, RefIsa, WtHuffman<'x>>; $body }
            _ => { type $D<'x> = PsiDocument<'x, SampSa<'x>, SampIsa<'x>, WtHuffman<'x>>; $body }
        }
    };
}

/// Build mix `mix` for the case, parse it (in place, or from a copy at another address when
/// `shift > 0`) and compare every query with the naive scan.
pub fn run_mix(mix: usize, shift: usize, c: &DocCase, m: &Model, expect: &[Vec<usize>], o: &mut Outcome) {
    let tag = MIXES[mix.min(MIXES.len() - 1)];
    with_mix!(mix, D => {
        let buf = match construct::<D>(&c.text, &c.boundaries) {
            Ok(b) => b,
            Err(e) => {
                o.fail(format!("{tag}:construct-error"), format!("PsiDocument<{tag}>::construct = Err({e:?}) on valid input; {}", show_case(c)));
                return;
            }
        };
        let mut moved = vec![0xc3u8; shift];
        moved.extend_from_slice(&buf);
        match <D as Unpackable>::unpack(&moved[shift..]) {
            Ok((d, rest)) => {
                if !rest.is_empty() {
                    o.fail(format!("{tag}:trailing-bytes"), format!("PsiDocument<{tag}>::unpack left {} unconsumed bytes; {}", rest.len(), show_case(c)));
                    return;
                }
                check_queries(tag, &d, c, m, expect, o);
            }
            Err(e) => o.fail(format!("{tag}:unpack-error"), format!("PsiDocument<{tag}>::unpack of freshly constructed bytes = Err({e:?}); {}", show_case(c))),
        }
    });
}

/// Invalid input must be refused by every mix (never a panic).
fn refuse_mix(mix: usize, c: &DocCase, o: &mut Outcome) {
    let tag = MIXES[mix.min(MIXES.len() - 1)];
    with_mix!(mix, D => {
        if construct::<D>(&c.text, &c.boundaries).is_ok() {
            o.fail(format!("{tag}:construct-accepts-invalid-boundaries"), format!("PsiDocument<{tag}>::construct accepted invalid input; {}", show_case(c)));
        }
    });
}

///////////////////////////////////////////// mixes part ///////////////////////////////////////////

#[derive(Clone, Debug, Serialize, Deserialize)]
pub struct MixCase {
    /// selectors of the two mixes run on this document
    pub mix: (u16, u16),
    pub doc: DocCase,
}

pub struct DocMixes;

impl Property for DocMixes {
    type Case = MixCase;
    fn name(&self) -> String {
        "document-mixes".into()
    }
    fn cases(&self, tier: Tier) -> u64 {
        tier.pick(450, 3_000)
    }
    fn strategy(&self, ctx: &Ctx) -> BoxedStrategy<MixCase> {
        ((any::<u16>(), any::<u16>()), doc_case(ctx.tier.pick(2500, 9000))).prop_map(|(mix, doc)| MixCase { mix, doc }).boxed()
    }
    fn max_shrink_iters(&self) -> u32 {
        300
    }
    fn run(&self, _: &Ctx, mc: &MixCase) -> Outcome {
        let mut o = Outcome::pass();
        let c = &mc.doc;
        let valid = boundaries_valid(c.text.len(), &c.boundaries);
        let m = Model { text: &c.text, b: &c.boundaries };
        let expect: Vec<Vec<usize>> = if valid { c.needles.iter().map(|nd| m.search(&nd.syms)).collect() } else { vec![] };
        describe(c, &expect, valid, &mut o);
        let a = sel(mc.mix.0, OTHER_MIXES);
        let mut b = sel(mc.mix.1, OTHER_MIXES - 1);
        if b >= a {
            b += 1;
        }
        for (i, mix) in [a, b].into_iter().enumerate() {
            o.label(format!("mix:{}", MIXES[mix]));
            if !valid {
                refuse_mix(mix, c, &mut o);
            } else {
                // the second one is parsed from a copy at another address and alignment
                let shift = if i == 0 { 0 } else { 1 + sel(c.probes.first().copied().unwrap_or(0), 7) };
                run_mix(mix, shift, c, &m, &expect, &mut o);
            }
            if o.failed() {
                return o;
            }
        }
        o
    }
}

////////////////////////////////////////// large alphabets /////////////////////////////////////////

/// Alphabets beyond what the general generator reaches (it stops at 4000 symbols): a few thousand
/// code points spread over the whole u32 range, and more than 65 535 distinct symbols, where the
/// index switches from u16 to u32 symbols (K = distinct + 1 crosses 65 536).
pub struct BigAlphabets;

#[derive(Clone, Debug)]
struct AlphaSpec {
    family: &'static str,
    size: usize,
    jitter: Vec<u16>,
}

fn realise_alphabet(s: &AlphaSpec) -> Vec<u32> {
    let n = s.size as u64;
    let v: Vec<u32> = match s.family {
        "dense-from-0" => (0..n as u32).collect(),
        // straddles the 2^20 limit of the dense symbol table
        "around-2^20" => (0..n as u32).map(|i| (1u32 << 20) - (n as u32) / 2 + i).collect(),
        "top-of-u32" => (0..n as u32).map(|i| u32::MAX - (n as u32 - 1) + i).collect(),
        // the whole u32 range in equal strides, each point moved inside its stride
        _ => {
            let stride = (1u64 << 32) / n;
            (0..n)
                .map(|i| {
                    let j = s.jitter[(i as usize) % s.jitter.len()] as u64;
                    let off = if i == 0 { 0 } else if i == n - 1 { stride - 1 } else { (j * stride) >> 16 };
                    (i * stride + off) as u32
                })
                .collect()
        }
    };
    debug_assert!(v.windows(2).all(|w| w[0] < w[1]));
    v
}

fn alpha_spec() -> BoxedStrategy<AlphaSpec> {
    let size = prop_oneof![
        // a few thousand symbols
        3 => 1500usize..=9000,
        // on and around the u16 -> u32 switch (K = size + 1)
        2 => Just(65_534usize),
        3 => Just(65_535usize),
        3 => Just(65_536usize),
        2 => Just(65_537usize),
        1 => 65_538usize..=72_000,
    ];
    let family = prop_oneof![
        2 => Just("dense-from-0"),
        1 => Just("around-2^20"),
        1 => Just("top-of-u32"),
        4 => Just("spread-over-u32"),
    ];
    (size, family, prop::collection::vec(any::<u16>(), 61))
        .prop_map(|(size, family, jitter)| AlphaSpec { family, size, jitter })
        .boxed()
}

fn big_case() -> BoxedStrategy<DocCase> {
    alpha_spec()
        .prop_flat_map(|spec| {
            let al = realise_alphabet(&spec);
            let family = spec.family;
            (Just(al.clone()).prop_shuffle(), prop::collection::vec(any::<u16>(), 0..=700), any::<bool>()).prop_flat_map(move |(mut text, extra, front)| {
                // every symbol once (so the alphabet size is exact), plus repeats at either end
                let rep: Vec<u32> = extra.iter().map(|x| al[sel(*x, al.len())]).collect();
                if front {
                    let mut t = rep;
                    t.extend(text);
                    text = t;
                } else {
                    text.extend(rep);
                }
                doc_case_from_text(format!("big:{family}"), "cover-alphabet+repeats".to_string(), text).prop_map(|mut c| {
                    // Keep the cost of one case bounded: every reported position costs up to 2^6
                    // psi steps and every needle symbol one backward-search step.
                    c.needles.retain(|nd| !nd.syms.is_empty());
                    for nd in c.needles.iter_mut() {
                        if nd.syms.len() > 400 {
                            nd.syms.truncate(400);
                            nd.kind = format!("{}(first 400 symbols)", nd.kind);
                        }
                    }
                    c
                })
            })
        })
        .boxed()
}

fn big_alpha_class(k: usize) -> String {
    match k {
        0..=65_533 => "distinct:1500-9000".to_string(),
        65_534..=65_537 => format!("distinct:{k}(K={})", k + 1),
        _ => "distinct:>65537".to_string(),
    }
}

impl Property for BigAlphabets {
    type Case = MixCase;
    fn name(&self) -> String {
        "document-big-alphabets".into()
    }
    fn cases(&self, tier: Tier) -> u64 {
        tier.pick(3, 40)
    }
    fn strategy(&self, _: &Ctx) -> BoxedStrategy<MixCase> {
        ((any::<u16>(), any::<u16>()), big_case()).prop_map(|(mix, doc)| MixCase { mix, doc }).boxed()
    }
    fn max_shrink_iters(&self) -> u32 {
        12
    }
    fn run(&self, _: &Ctx, mc: &MixCase) -> Outcome {
        let mut o = Outcome::pass();
        let c = &mc.doc;
        let valid = boundaries_valid(c.text.len(), &c.boundaries);
        if !valid {
            o.label("skipped:invalid-input");
            return o;
        }
        let m = Model { text: &c.text, b: &c.boundaries };
        let expect: Vec<Vec<usize>> = c.needles.iter().map(|nd| m.search(&nd.syms)).collect();
        describe(c, &expect, valid, &mut o);
        let distinct = distinct_symbols(&c.text);
        o.label(big_alpha_class(distinct.len()));
        o.label(format!("symbol-width:{}", if distinct.len() + 1 <= 65_536 { "u16" } else { "u32" }));
        o.nontrivial = c.boundaries.len() >= 2 && expect.iter().any(|e| !e.is_empty());
        // the compressed document always; one other mix as generated
        let buf = match construct::<CompressedDocument>(&c.text, &c.boundaries) {
            Ok(b) => b,
            Err(e) => {
                o.fail("compressed:construct-error", format!("CompressedDocument::construct = Err({e:?}) on valid input; {}", show_case(c)));
                return o;
            }
        };
        match CompressedDocument::unpack(&buf) {
            Ok((d, _)) => check_queries("compressed", &d, c, &m, &expect, &mut o),
            Err(e) => o.fail("compressed:unpack-error", format!("CompressedDocument::unpack = Err({e:?}); {}", show_case(c))),
        }
        if o.failed() {
            return o;
        }
        drop(buf);
        let mix = sel(mc.mix.0, OTHER_MIXES);
        o.label(format!("mix:{}", MIXES[mix]));
        run_mix(mix, 0, c, &m, &expect, &mut o);
        o
    }
}


/////////////////////////////////////////// skewed contexts //////////////////////////////////////////

/// Texts in which one context is preceded by 18-22 different symbols with Fibonacci-like frequencies,
/// so that the Huffman code of the rarest predecessor is longer than 16 (up to 21) bits: code lengths
/// that natural, random and periodic texts never reach.  Same oracle as the other document parts.
pub struct SkewedContexts;

fn skewed_case() -> BoxedStrategy<DocCase> {
    (18usize..=22, 1usize..=2, any::<bool>(), prop::collection::vec(any::<u16>(), 0..40))
        .prop_flat_map(|(depth, ctx_len, spaced, noise)| {
            // predecessor i occurs fib(i) times
            let mut fib = vec![1usize, 1];
            while fib.len() < depth {
                let n = fib.len();
                fib.push(fib[n - 1] + fib[n - 2]);
            }
            let mut units: Vec<u32> = vec![];
            for (i, f) in fib.iter().enumerate() {
                for _ in 0..*f {
                    units.push(100 + i as u32);
                }
            }
            (Just(units).prop_shuffle(), Just((depth, ctx_len, spaced, noise)))
        })
        .prop_flat_map(|(units, (depth, ctx_len, spaced, noise))| {
            let mut text: Vec<u32> = Vec::with_capacity(units.len() * (ctx_len + 2));
            for (j, p) in units.iter().enumerate() {
                text.push(*p);
                text.push(7);
                if ctx_len == 2 {
                    text.push(8);
                }
                if spaced {
                    text.push(9);
                }
                if let Some(x) = noise.get(j % 97).filter(|_| j % 1013 == 0) {
                    text.push(1000 + (*x as u32 % 50));
                }
            }
            doc_case_from_text(format!("skewed:{depth}-predecessors"), "fibonacci-context".to_string(), text).prop_map(|mut c| {
                c.needles.retain(|nd| !nd.syms.is_empty());
                for nd in c.needles.iter_mut() {
                    if nd.syms.len() > 200 {
                        nd.syms.truncate(200);
                        nd.kind = format!("{}(first 200 symbols)", nd.kind);
                    }
                }
                c
            })
        })
        .boxed()
}

impl Property for SkewedContexts {
    type Case = MixCase;
    fn name(&self) -> String {
        "document-skewed-contexts".into()
    }
    fn cases(&self, tier: Tier) -> u64 {
        tier.pick(1, 12)
    }
    fn strategy(&self, _: &Ctx) -> BoxedStrategy<MixCase> {
        ((any::<u16>(), any::<u16>()), skewed_case()).prop_map(|(mix, doc)| MixCase { mix, doc }).boxed()
    }
    fn max_shrink_iters(&self) -> u32 {
        4
    }
    fn run(&self, ctx: &Ctx, mc: &MixCase) -> Outcome {
        let mut o = BigAlphabets.run(ctx, mc);
        o.label("huffman-code-longer-than-16-bits-possible");
        o
    }
}
