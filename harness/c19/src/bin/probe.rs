// TEMPORARY probe (deleted before hand-over).
use buffertk::Unpackable;
use scrunch::builder::Builder;
use scrunch::{CompressedDocument, Document};
use std::time::Instant;

fn build(text: &[u32], b: &[usize]) -> Vec<u8> {
    let mut buf = Vec::new();
    let mut builder = Builder::new(&mut buf);
    CompressedDocument::construct(text.to_vec(), b.to_vec(), &mut builder).unwrap();
    drop(builder);
    buf
}

fn main() {
    let arg = std::env::args().nth(1).unwrap_or_default();
    if arg == "big" {
        for distinct in [4000usize, 20000, 65535, 65536, 65537, 70000] {
            let mut text: Vec<u32> = (0..distinct as u32).map(|i| i.wrapping_mul(65_003).wrapping_add(99)).collect();
            text.sort();
            text.dedup();
            assert_eq!(text.len(), distinct);
            // pseudo-shuffle
            let n = text.len();
            for i in 0..n {
                let j = (i * 7919 + 13) % n;
                text.swap(i, j);
            }
            for i in 0..500 {
                let v = text[(i * 31) % n];
                text.push(v);
            }
            let t0 = Instant::now();
            let buf = build(&text, &[0, 5, 100]);
            let t1 = t0.elapsed();
            let (d, _) = CompressedDocument::unpack(&buf).unwrap();
            let t2 = t0.elapsed();
            let c = d.count(&text[10..12]).unwrap();
            let r = d.retrieve(scrunch::RecordOffset(1)).unwrap();
            println!("distinct={distinct} n={} construct={:?} unpack={:?} bytes={} count={c} rec1={}", text.len(), t1, t2 - t1, buf.len(), r.len());
        }
    }
    if arg == "ex" {
        // text: "xabyabzab" style
        let text: Vec<u32> = "xab yab zab xab ".chars().map(|c| c as u32).collect();
        let buf = build(&text, &[0]);
        let (d, _) = CompressedDocument::unpack(&buf).unwrap();
        let docs = [&d];
        let show = |t: &[u32]| t.iter().map(|c| char::from_u32(*c).unwrap()).collect::<String>();
        println!("exemplars (' ',' '):");
        for e in scrunch::exemplars(&docs, &[(' ' as u32, ' ' as u32)]).take(20) {
            println!("  {:?} {}", show(e.text()), e.count());
        }
        println!("exemplars_with_min_length 2 (' ',' '):");
        for e in scrunch::exemplars_with_min_length(&docs, &[(' ' as u32, ' ' as u32)], 2).take(20) {
            println!("  {:?} {}", show(e.text()), e.count());
        }
        println!("from_needle stop=[' '] needle=\"ab\":");
        for e in scrunch::exemplars_from_needle(&docs, &[' ' as u32], vec!['a' as u32, 'b' as u32]).take(20) {
            println!("  {:?} {}", show(e.text()), e.count());
        }
        println!("from_needle stop=[' '] needle=\"ba\":");
        for e in scrunch::exemplars_from_needle(&docs, &[' ' as u32], vec!['b' as u32, 'a' as u32]).take(20) {
            println!("  {:?} {}", show(e.text()), e.count());
        }
        println!("from_needle stop=[' '] needle=\"b\":");
        for e in scrunch::exemplars_from_needle(&docs, &[' ' as u32], vec!['b' as u32]).take(20) {
            println!("  {:?} {}", show(e.text()), e.count());
        }
        println!("correlate all:");
        for e in scrunch::correlate(&docs, &[(' ' as u32, ' ' as u32)], |_, _| true).take(20) {
            println!("  {:?} {}", show(e.text()), e.count());
        }
    }
}
