//! C19 — the compressed text index answers every query as the uncompressed text would.
//!
//! Oracles: (1) a naive scan of the original text written here (ground truth) against
//! `CompressedDocument` and `ReferenceDocument` for every `Document` query, (2) the same after
//! re-parsing the serialised index, (3) every exported `BitVector` implementation against a plain
//! `Vec<bool>`, (4) the wavelet trees against a plain symbol vector, (5) the same naive scan against
//! other `PsiDocument<SA, ISA, PSI>` combinations than the `CompressedDocument` alias and against
//! alphabets beyond the u16 symbol width, (6) suffix array / inverse / psi obtained by sorting the
//! suffixes here against every exported constructor of the building blocks (usize, u32,
//! from-SA-and-ISA; caller-chosen sampling rates), (7) marker-delimited strings and their
//! occurrence counts found by a scan against `exemplars*` / `correlate`.

mod bits;
mod components;
mod docs;
// exemplars* / correlate lie outside the text of C19 (len, records, search, count, lookup, offset_of,
// retrieve, pack/unpack); the part that exercises them is kept for reference but is NOT registered,
// so that a change confined to those calls can never raise a C19 alarm.
#[allow(dead_code)]
mod exemplars;
mod mixes;
mod textgen;
mod wavelet;

use vcore::Check;

fn main() {
    let check = Check::new(
        "C19",
        "exploration",
        "texts: empty, single symbol, all-equal, periodic (1..8), alphabet cycle, de Bruijn, Fibonacci / Thue-Morse words, runs, repeated blocks \
         with point mutations, ascending / descending, uniform and skewed random, over alphabets of 1..4000 code points (from 0, ascii, spread over \
         u32, around 2^20, top of unicode, top of u32 incl. u32::MAX); record boundaries: one record, one symbol per record, random, regular, \
         adjacent pairs, last record of one symbol, and invalid lists; needles: substrings, across record boundaries, mutated, with absent \
         symbols, empty, prefix, suffix, whole text, longer than the text, single symbols, symbol runs, doubled substrings. A document case is \
         non-trivial when it has >= 2 records, a non-empty needle with >= 2 occurrences and a needle with none. Bit vectors up to 50 000 bits: \
         constant, runs aligned to (and one off) 63/64/504/1449/16/128/256/4096, random with density 1/8..7/8, ones or zeros at generated gaps \
         with counts on the sparse-tree and select-sample sizes; non-trivial when >= 127 bits with both values and > 16 set bits. Wavelet-tree \
         cases are non-trivial with >= 2 distinct symbols and >= 64 symbols. document-mixes: the same document cases over two of ten other \
         SA+ISA+PSI combinations (labelled mix:...). document-big-alphabets: every symbol once plus repeats, 1500..9000 code points spread over \
         u32 or 65 534..72 000 distinct symbols (K on both sides of 65 536), non-trivial with >= 2 records and a needle that occurs. \
         index-components: texts up to 400 (900) symbols, sampling exponents 0..10, 31, 32, 63, 64, generated ISA sample positions, constrain / \
         predecessor queries with whole, partial, empty and arbitrary target intervals; non-trivial with >= 8 symbols and >= 2 distinct.",
    )
    .assume("Document::construct requires a non-empty text and record boundaries that start at 0, increase strictly and stay below the text length (check_record_boundaries); hence no empty records. Invalid lists and the empty text must be refused by both implementations.")
    .assume("Any u32 is a legal symbol (0 and u32::MAX included); the end marker is internal to the index.")
    .assume("The empty needle matches at every offset 0..len (common behaviour of CompressedDocument and ReferenceDocument; the docs are silent); a needle longer than the text matches nowhere.")
    .assume("lookup is compared for text offsets 0..len only. For offsets > len ReferenceDocument answers the last record and CompressedDocument answers Err; the docs are silent, so only absence of panics is required there.")
    .assume("retrieve / offset_of of a record number >= records() must be an error (the variants differ between implementations and are not compared).")
    .assume("There is no pack method on a live document: 'serialise' is construct(), which writes the bytes; re-parsing is unpack() of those bytes, also from a copy at another address and alignment. The document is constructed twice; both constructions must answer every query as the naive scan does. Whether their bytes are identical is recorded as a label only (not part of the property).")
    .assume("BitVector semantics as documented and as the crate's own tests state them: access(x) is Some for x < len; rank(x) counts set bits below x for x in 0..=len and is None beyond; select(0) = Some(0), select(k) = one past the k-th set bit, None for k > count; select0 / rank0 likewise for unset bits.")
    .assume("access_rank(len) is None for reference / rrr and Some((false, count)) for sparse / cf_rrr; both are accepted, a set bit or a wrong rank is not.")
    .assume("sparse::BitVector::from_indices is driven with fan-outs 4, 5, 16, 17, 128, 255 (documented range 4..256) and indices strictly below len.")
    .assume("WaveletTree: rank_q(q, x) for x in 0..=len, select_q(q, k) = one past the k-th q (Some(0) for k = 0), None beyond; symbols that do not occur may give None or zero.")
    .assume("Every SA / ISA / PSI combination of PsiDocument is held to the same Document contract as CompressedDocument (the crate's own tests/psi_with_*.rs instantiate five of them).")
    .assume("Building blocks: lookups are asserted for indices inside the structure only (0..=len for suffix array and psi; sampled positions for the sampled inverse suffix array, where other positions may answer Err but never a wrong value). Sampling exponents 0..10 must be accepted; 31 / 63 (the largest the u32 / usize constructors can shift by) and 32 / 64 may be refused but, if accepted, must answer correctly. Identical bytes from the usize / u32 / from-SA-and-ISA constructors are recorded as a label, not required.")
    .assume("Psi::constrain is called as its documentation allows: `range` is the whole suffix-array interval of one symbol (never the end marker's), `into` any closed interval, also empty and spanning several symbols; an empty answer is any pair with first > second. predecessor_sigma_symbols / predecessor_sigma_ranges are judged only when they return Ok(true) ('complete'), as sets, ignoring the end marker (symbol 0).")
    .pbt(docs::DocQueries)
    .pbt(docs::DocSerialize)
    .pbt(mixes::DocMixes)
    .pbt(mixes::BigAlphabets)
    .pbt(mixes::SkewedContexts)
    .pbt(components::Components)
    .pbt(bits::BitVectors(bits::Impl::Rrr))
    .pbt(bits::BitVectors(bits::Impl::CfRrr))
    .pbt(bits::BitVectors(bits::Impl::Sparse))
    .pbt(bits::BitVectors(bits::Impl::SparseIndices))
    .pbt(bits::BitVectors(bits::Impl::Reference))
    .pbt(wavelet::WaveletTrees(wavelet::Wt::Huffman))
    .pbt(wavelet::WaveletTrees(wavelet::Wt::Fixed))
    .pbt(wavelet::WaveletTrees(wavelet::Wt::Reference));
    vcore::main_with(vec![check], &[]);
}
