//! The query entry points beyond the `Document` trait: `exemplars`, `exemplars_with_min_length`,
//! `exemplars_from_needle` and `correlate` over one to three documents.
//!
//! None of them is documented.  What is asserted unconditionally is what any reading implies:
//! `Exemplar::count()` is the number of occurrences of `Exemplar::text()` in the documents (a
//! plain scan), no text is reported twice, and counts never increase along the iteration (the
//! callers - analogize, benches/exemplars.rs - `take(n)` the most frequent ones).  The shape of the
//! texts and the completeness of the enumeration are asserted under an assumption recorded in
//! main.rs (marker-delimited, extended to the left until the start marker).

use std::collections::{BTreeMap, BTreeSet};

use buffertk::Unpackable;
use proptest::prelude::*;
use scrunch::isa::{ReferenceInverseSuffixArray as RefIsa, SampledInverseSuffixArray as SampIsa};
use scrunch::psi::ReferencePsi as RefPsi;
use scrunch::sa::{ReferenceSuffixArray as RefSa, SampledSuffixArray as SampSa};
use scrunch::{Exemplar, PsiDocument, RecordOffset};
use serde::{Deserialize, Serialize};
use vcore::gens::sel;
use vcore::{Ctx, Outcome, Property, Tier};

use crate::docs::{construct, show_syms};
use crate::mixes::{MIXES, WtFixed, WtHuffman, WtReference};
use crate::textgen::boundaries_valid;
use crate::with_mix;

#[derive(Clone, Debug, Serialize, Deserialize)]
pub struct ExDoc {
    pub text: Vec<u32>,
    pub boundaries: Vec<usize>,
    /// which records `correlate`'s predicate selects
    pub selected: Vec<bool>,
}

#[derive(Clone, Debug, Serialize, Deserialize)]
pub struct ExCase {
    pub family: String,
    pub mix: usize,
    pub docs: Vec<ExDoc>,
    /// (start marker, end marker), distinct pairs
    pub pairs: Vec<(u32, u32)>,
    pub min_length: usize,
    pub stop: u32,
    pub needle: Vec<u32>,
    pub select_mode: u8,
}

pub struct Exemplars;

/// `exemplars_from_needle` reports a needle of two or more symbols reversed (its text() shows the
/// reversed needle while count() counts the un-reversed one; DESIGN.md, observations).  The call is
/// outside the text of property C19 (len / records / search / count / lookup / offset_of /
/// retrieve), so this is an observation and not a finding: such needles are not judged, only
/// labelled.
pub const FROM_NEEDLE_REVERSED: &str = "from-needle:not-judged(needle>=2-symbols-not-a-palindrome,reported-reversed)";

const DRAIN_CAP: usize = 6000;

////////////////////////////////////////////// oracle //////////////////////////////////////////////

fn occurrences(text: &[u32], w: &[u32]) -> Vec<usize> {
    if w.is_empty() || w.len() > text.len() {
        return vec![];
    }
    (0..=text.len() - w.len()).filter(|i| &text[*i..*i + w.len()] == w).collect()
}

fn count_all(docs: &[ExDoc], w: &[u32]) -> usize {
    docs.iter().map(|d| occurrences(&d.text, w).len()).sum()
}

/// Every occurrence of an end marker, extended to the left until the string starts with the start
/// marker and has at least `min_length` symbols; dropped when the start of the document is reached
/// first.  Value: how many (document, position) pairs produced the string.
fn naive_exemplars(docs: &[ExDoc], pairs: &[(u32, u32)], min_length: usize) -> BTreeMap<Vec<u32>, usize> {
    let mut out: BTreeMap<Vec<u32>, usize> = BTreeMap::new();
    for (a, e) in pairs.iter() {
        for d in docs.iter() {
            for p in 0..d.text.len() {
                if d.text[p] != *e {
                    continue;
                }
                let mut q = p;
                loop {
                    if d.text[q] == *a && p - q + 1 >= min_length {
                        *out.entry(d.text[q..=p].to_vec()).or_default() += 1;
                        break;
                    }
                    if q == 0 {
                        break;
                    }
                    q -= 1;
                }
            }
        }
    }
    out
}

/// The same walk, starting from every occurrence of `needle`.
fn naive_from_needle(docs: &[ExDoc], stop: u32, needle: &[u32]) -> BTreeMap<Vec<u32>, usize> {
    let mut out: BTreeMap<Vec<u32>, usize> = BTreeMap::new();
    for d in docs.iter() {
        for q0 in occurrences(&d.text, needle) {
            let p = q0 + needle.len() - 1;
            let mut q = q0;
            loop {
                if d.text[q] == stop {
                    *out.entry(d.text[q..=p].to_vec()).or_default() += 1;
                    break;
                }
                if q == 0 {
                    break;
                }
                q -= 1;
            }
        }
    }
    out
}

fn record_of(b: &[usize], p: usize) -> usize {
    b.partition_point(|x| *x <= p) - 1
}

/// Bounds on what `correlate` may report for `w`: occurrences lying wholly inside selected records
/// (lower) and occurrences touching any selected record (upper).  They coincide when no
/// occurrence crosses from a selected into an unselected record.
fn correlate_bounds(docs: &[ExDoc], w: &[u32], sel_of: &dyn Fn(usize, usize) -> bool) -> (usize, usize) {
    let (mut lo, mut hi) = (0, 0);
    for (i, d) in docs.iter().enumerate() {
        for p in occurrences(&d.text, w) {
            let (r0, r1) = (record_of(&d.boundaries, p), record_of(&d.boundaries, p + w.len() - 1));
            let picks: Vec<bool> = (r0..=r1).map(|r| sel_of(i, r)).collect();
            if picks.iter().all(|x| *x) {
                lo += 1;
            }
            if picks.iter().any(|x| *x) {
                hi += 1;
            }
        }
    }
    (lo, hi)
}

fn show_docs(c: &ExCase) -> String {
    let d: Vec<String> = c.docs.iter().map(|d| format!("text[{}]={} boundaries={:?}", d.text.len(), show_syms(&d.text), &d.boundaries[..d.boundaries.len().min(24)])).collect();
    format!("{} document(s): {}", c.docs.len(), d.join(" | "))
}

/// Judge one drained (or capped) enumeration against the expected map.  `bounds`: for correlate,
/// the admissible count interval per text; otherwise the exact count.
#[allow(clippy::too_many_arguments)]
fn judge(
    tag: &str,
    what: &str,
    got: &[(Vec<u32>, usize)],
    drained: bool,
    want: &BTreeMap<Vec<u32>, usize>,
    bounds: &dyn Fn(&[u32]) -> (usize, usize),
    c: &ExCase,
    o: &mut Outcome,
) {
    let mut seen: BTreeSet<&[u32]> = BTreeSet::new();
    let mut prev = usize::MAX;
    for (k, (text, count)) in got.iter().enumerate() {
        let (lo, hi) = bounds(text);
        if *count < lo || *count > hi {
            o.fail(
                format!("{tag}:count"),
                format!("{what}: item #{k} is {} with count {count}; a plain scan gives {}; {}", show_syms(text), if lo == hi { format!("{lo}") } else { format!("{lo}..={hi}") }, show_docs(c)),
            );
            return;
        }
        if !seen.insert(text.as_slice()) {
            o.fail(format!("{tag}:duplicate"), format!("{what}: {} is reported twice (again as item #{k}); {}", show_syms(text), show_docs(c)));
            return;
        }
        if *count > prev {
            o.fail(format!("{tag}:order"), format!("{what}: item #{k} {} has count {count} after an item with count {prev}; {}", show_syms(text), show_docs(c)));
            return;
        }
        prev = *count;
        if !want.contains_key(text) {
            o.fail(
                format!("{tag}:shape"),
                format!("{what}: item #{k} {} (count {count}) is not a marker-delimited string of the documents (expected one of {} strings); {}", show_syms(text), want.len(), show_docs(c)),
            );
            return;
        }
    }
    // completeness: everything when the iterator ended, else everything above the last count seen
    for (text, n) in want.iter() {
        let (lo, _) = bounds(text);
        let required = if drained { lo > 0 } else { lo > prev };
        if required && !seen.contains(text.as_slice()) {
            o.fail(
                format!("{tag}:missing"),
                format!("{what}: {} occurs {n} time(s) (count to report >= {lo}) but was never reported ({} items, {}); {}", show_syms(text), got.len(), if drained { "iterator ended" } else { "capped" }, show_docs(c)),
            );
            return;
        }
    }
}

fn drain(it: impl Iterator<Item = Exemplar>) -> (Vec<(Vec<u32>, usize)>, bool) {
    let mut out = vec![];
    for e in it {
        out.push((e.text().to_vec(), e.count()));
        if out.len() >= DRAIN_CAP {
            return (out, false);
        }
    }
    (out, true)
}

///////////////////////////////////////////// generator ////////////////////////////////////////////

fn code_point(family: u8, i: usize) -> u32 {
    match family {
        0 => 97 + i as u32,
        1 => i as u32,
        // beyond the dense symbol table
        _ => (i as u32).wrapping_mul(16_000_057).wrapping_add((1 << 20) + 3),
    }
}

fn ex_case(tier: Tier) -> BoxedStrategy<ExCase> {
    let alpha = prop_oneof![
        5 => 2usize..=5,
        3 => 6usize..=30,
        // the wavelet psi answers predecessor queries itself only when 32 x |range| < K - 1 and the
        // range spans two context rows: a one-symbol needle occurring twice among > 65 symbols
        3 => 31usize..=tier.pick(300, 500),
    ];
    (alpha, 0u8..3, 1usize..=3, any::<bool>()).prop_flat_map(move |(a, fam, ndocs, words)| {
        let max_tokens = if a <= 30 { 36 } else if words { 40 } else { 130 };
        let doc = (
            prop::collection::vec((any::<u16>(), any::<u16>()), 1..=max_tokens),
            prop::collection::vec(any::<u16>(), 0..=10),
            0u8..4,
            prop::collection::vec(any::<bool>(), 330),
        );
        (
            Just((a, fam, words)),
            // dictionary of words (selectors of non-marker symbols)
            prop::collection::vec(prop::collection::vec(any::<u16>(), 0..=4), 1..=10),
            prop::collection::vec(doc, ndocs),
            prop::collection::vec((any::<u16>(), any::<u16>()), 1..=3),
            prop_oneof![3 => Just(0usize), 2 => 1usize..=3, 1 => 4usize..=7],
            (any::<u16>(), any::<u16>(), any::<u16>(), 0u8..6),
            0u8..4,
            0usize..MIXES.len() + 5,
            (any::<u16>(), any::<u16>(), any::<u16>(), any::<u16>(), any::<bool>()),
        )
    })
    .prop_map(|((a, fam, words), dict, docs, pairs, min_length, (stop, nstart, nlen, nkind), select_mode, mix, plant)| {
        let sym = |s: u16| code_point(fam, sel(s, a));
        // the first one or two symbols are the markers; they are frequent by construction
        let markers = if a >= 4 { 2 } else { 1 };
        let dict: Vec<Vec<u32>> = dict.iter().map(|w| w.iter().map(|s| code_point(fam, markers + sel(*s, a - markers))).collect()).collect();
        let mut docs: Vec<ExDoc> = docs
            .into_iter()
            .map(|(tokens, bsel, bmode, selected)| {
                let mut text = vec![];
                let mut starts = vec![];
                for (m, w) in tokens.iter() {
                    if words {
                        starts.push(text.len());
                        text.push(code_point(fam, sel(*m, markers)));
                        text.extend_from_slice(&dict[sel(*w, dict.len())]);
                    } else {
                        text.push(sym(*w));
                    }
                }
                let n = text.len();
                let mut b: Vec<usize> = match bmode {
                    0 => vec![0],
                    1 if words => starts.clone(),
                    2 => (0..n).collect(),
                    _ => bsel.iter().map(|x| sel(*x, n)).collect(),
                };
                b.push(0);
                b.sort();
                b.dedup();
                ExDoc { text, boundaries: b, selected }
            })
            .collect();
        let mut absent = code_point(fam, a);
        if fam == 0 {
            absent = 7;
        }
        // mostly markers, sometimes any symbol, sometimes a code point that occurs nowhere
        let pick = |s: u16| {
            if s >= 0xf000 {
                absent
            } else if s < 0x9000 {
                code_point(fam, if markers == 2 && s >= 0x4800 { 1 } else { 0 })
            } else {
                sym(s)
            }
        };
        let mut pairs: Vec<(u32, u32)> = pairs.iter().map(|(x, y)| (pick(*x), pick(*y))).collect();
        // Directed: in a large alphabet make one symbol occur two or three times and use it as end
        // marker, so that the first backward step starts from a short interval over several rows.
        let rare = !words && a > 30 && plant.4 && docs[0].text.len() >= 8;
        if rare {
            let t = &mut docs[0].text;
            let n = t.len();
            let e = t[sel(plant.0, n)];
            t[sel(plant.1, n)] = e;
            if plant.3 >= 0x8000 {
                t[sel(plant.2, n)] = e;
            }
            let start = t[sel(plant.3, n)];
            pairs.push((start, e));
        }
        pairs.sort();
        pairs.dedup();
        // needle for exemplars_from_needle
        let t0 = &docs[0].text;
        let s0 = sel(nstart, t0.len());
        let needle: Vec<u32> = match nkind {
            0 | 1 => vec![t0[s0]],
            2 => vec![t0[s0]; 2],
            3 => {
                // odd palindrome around a position, as far as the text mirrors itself (at least 1 symbol)
                let mut r = 0;
                while s0 > r && s0 + r + 1 < t0.len() && t0[s0 - r - 1] == t0[s0 + r + 1] && r < 2 {
                    r += 1;
                }
                t0[s0 - r..=s0 + r].to_vec()
            }
            _ => t0[s0..(s0 + 2 + sel(nlen, 2)).min(t0.len())].to_vec(),
        };
        ExCase {
            family: format!("{}:{}", if words { "marker+word tokens" } else if rare { "uniform symbols+rare end marker" } else { "uniform symbols" }, ["ascii", "dense-from-0", "sparse>2^20"][fam as usize]),
            mix: mix.min(MIXES.len() - 1),
            docs,
            pairs,
            min_length,
            stop: pick(stop),
            needle,
            select_mode,
        }
    })
    .boxed()
}

impl Property for Exemplars {
    type Case = ExCase;
    fn name(&self) -> String {
        "exemplars-correlate".into()
    }
    fn cases(&self, tier: Tier) -> u64 {
        tier.pick(600, 8_000)
    }
    fn strategy(&self, ctx: &Ctx) -> BoxedStrategy<ExCase> {
        ex_case(ctx.tier)
    }
    fn max_shrink_iters(&self) -> u32 {
        500
    }
    fn run(&self, _ctx: &Ctx, c: &ExCase) -> Outcome {
        let mut o = Outcome::pass();
        if c.docs.is_empty() || c.docs.iter().any(|d| !boundaries_valid(d.text.len(), &d.boundaries) || d.selected.len() < d.boundaries.len()) || c.needle.is_empty() {
            o.label("skipped:invalid-case");
            return o;
        }
        let mix = c.mix.min(MIXES.len() - 1);
        let tag = MIXES[mix];
        o.label(format!("mix:{tag}"));
        o.label(format!("family:{}", c.family));
        o.label(format!("documents:{}", c.docs.len()));
        o.label(format!("min_length:{}", match c.min_length { 0 => "0(exemplars)", 1..=3 => "1-3", _ => "4-7" }));
        let k: BTreeSet<u32> = c.docs.iter().flat_map(|d| d.text.iter().copied()).collect();
        o.label(format!("alphabet:{}", match k.len() { 0..=5 => "<=5", 6..=30 => "6-30", _ => ">30" }));

        let want = naive_exemplars(&c.docs, &c.pairs, c.min_length);
        // the walk's multiplicities are occurrence counts (self-check of the oracle's reading)
        let exact = |w: &[u32]| {
            let n = count_all(&c.docs, w);
            (n, n)
        };
        let top = want.values().copied().max().unwrap_or(0);
        if c.pairs.iter().any(|(_, e)| {
            c.docs.iter().any(|d| {
                let n = occurrences(&d.text, &[*e]).len();
                let kd: BTreeSet<u32> = d.text.iter().copied().collect();
                n >= 2 && 32 * n < kd.len()
            })
        }) {
            o.label("end-marker-occurs>=2-times-and-32x-fewer-than-symbols(wavelet-predecessor-path)");
        }
        o.label(format!("expected-exemplars:{}", match want.len() { 0 => "0", 1 => "1", 2..=9 => "2-9", 10..=99 => "10-99", _ => ">=100" }));
        o.label(format!("top-count:{}", match top { 0 => "0", 1 => "1", 2..=4 => "2-4", _ => ">=5" }));
        o.nontrivial = want.len() >= 2 && top >= 2;

        let palindrome = c.needle.iter().eq(c.needle.iter().rev());
        let skip_from_needle = c.needle.len() >= 2 && !palindrome;
        o.label(format!("needle:{}", if c.needle.len() == 1 { "1-symbol" } else if palindrome { "palindrome>=2" } else { ">=2-not-a-palindrome" }));

        with_mix!(mix, D => {
            let mut bufs: Vec<Vec<u8>> = vec![];
            for d in c.docs.iter() {
                match construct::<D>(&d.text, &d.boundaries) {
                    Ok(b) => bufs.push(b),
                    Err(e) => {
                        o.fail(format!("{tag}:construct-error"), format!("construct = Err({e:?}); {}", show_docs(c)));
                        return o;
                    }
                }
            }
            let mut parsed: Vec<D> = vec![];
            for b in bufs.iter() {
                match <D as Unpackable>::unpack(b) {
                    Ok((d, _)) => parsed.push(d),
                    Err(e) => {
                        o.fail(format!("{tag}:unpack-error"), format!("unpack = Err({e:?}); {}", show_docs(c)));
                        return o;
                    }
                }
            }
            let refs: Vec<&D> = parsed.iter().collect();

            // exemplars / exemplars_with_min_length
            let (got, drained) = if c.min_length == 0 { drain(scrunch::exemplars(&refs, &c.pairs)) } else { drain(scrunch::exemplars_with_min_length(&refs, &c.pairs, c.min_length)) };
            if !drained {
                o.label("exemplars:capped");
            }
            let what = format!("exemplars(markers {:?}, min_length {}) on {tag}", c.pairs, c.min_length);
            judge("exemplars", &what, &got, drained, &want, &exact, c, &mut o);
            if o.failed() {
                return o;
            }

            // correlate: all records, none, or the generated selection
            let sel_of = |i: usize, r: usize| match c.select_mode {
                0 => true,
                1 => false,
                _ => c.docs[i].selected[r],
            };
            o.label(format!("correlate-select:{}", ["all", "none", "generated", "generated"][c.select_mode.min(3) as usize]));
            let (got, drained) = drain(scrunch::correlate(&refs, &c.pairs, |i, r: RecordOffset| sel_of(i, r.0)));
            // correlate enumerates the exemplars of min_length 0
            let want0 = if c.min_length == 0 { want.clone() } else { naive_exemplars(&c.docs, &c.pairs, 0) };
            let bounds = |w: &[u32]| correlate_bounds(&c.docs, w, &sel_of);
            if want0.keys().any(|w| { let (lo, hi) = bounds(w); lo != hi }) {
                o.label("correlate:some-occurrence-spans-selected-and-unselected-records");
            }
            let what = format!("correlate(markers {:?}, select {}) on {tag}", c.pairs, c.select_mode);
            judge("correlate", &what, &got, drained, &want0, &bounds, c, &mut o);
            if o.failed() {
                return o;
            }

            // exemplars_from_needle
            if skip_from_needle {
                o.label(FROM_NEEDLE_REVERSED);
            } else {
                let wantn = naive_from_needle(&c.docs, c.stop, &c.needle);
                o.label(format!("from-needle-expected:{}", match wantn.len() { 0 => "0", 1 => "1", _ => ">=2" }));
                let (got, drained) = drain(scrunch::exemplars_from_needle(&refs, &[c.stop], c.needle.clone()));
                let what = format!("exemplars_from_needle(stop [{}], needle {}) on {tag}", c.stop, show_syms(&c.needle));
                judge("exemplars_from_needle", &what, &got, drained, &wantn, &exact, c, &mut o);
            }
        });
        o
    }
}
