//! Generators for C19: alphabets, texts, record boundaries and search patterns.
//!
//! Everything is produced by proptest strategies; selectors are mapped monotonically with
//! `vcore::gens::sel`.  The realised case (text, boundaries, needles) is what gets serialised, so
//! a replay file is self-contained.

use std::collections::BTreeSet;

use proptest::prelude::*;
use serde::{Deserialize, Serialize};
use vcore::gens::sel;

#[derive(Clone, Debug, Serialize, Deserialize)]
pub struct Needle {
    pub kind: String,
    pub syms: Vec<u32>,
}

#[derive(Clone, Debug, Serialize, Deserialize)]
pub struct DocCase {
    /// text class (generator family)
    pub class: String,
    /// code-point family of the alphabet
    pub alpha: String,
    pub text: Vec<u32>,
    /// record-boundary class
    pub bclass: String,
    pub boundaries: Vec<usize>,
    pub needles: Vec<Needle>,
    /// selectors for sampled offsets in long texts
    pub probes: Vec<u16>,
}

///////////////////////////////////////////// alphabets ////////////////////////////////////////////

/// Alphabet sizes 1 … 4000; 250..=262 straddles the u8/u16 symbol-width switch (K = size + 1).
fn alpha_size(max: usize) -> BoxedStrategy<usize> {
    prop_oneof![
        2 => Just(1usize),
        6 => 2usize..=4,
        6 => 5usize..=30,
        2 => 31usize..=200,
        2 => 254usize..=257,
        1 => 201usize..=300,
        2 => 301usize..=1200,
        1 => 1201usize..=4000,
    ]
    .prop_map(move |s| s.min(max).max(1))
    .boxed()
}

/// `size` distinct code points, ascending, from one of several families.
fn alphabet(size: usize) -> BoxedStrategy<(String, Vec<u32>)> {
    let n = size as u32;
    let seq = move |name: &str, start: u32| -> (String, Vec<u32>) { (name.to_string(), (0..n).map(|i| start + i).collect()) };
    let mixed: Vec<u32> = {
        let mut v: BTreeSet<u32> = BTreeSet::new();
        let seeds = [
            0u32,
            u32::MAX,
            1 << 20,
            (1 << 20) + 1,
            (1 << 20) - 1,
            0x10FFFF,
            255,
            256,
            65535,
            65536,
            1,
            u32::MAX - 1,
            0x7fff_ffff,
            0x8000_0000,
        ];
        for s in seeds.iter() {
            if v.len() < size {
                v.insert(*s);
            }
        }
        let mut i = 0u32;
        while v.len() < size {
            v.insert(i.wrapping_mul(1_000_003).wrapping_add(17));
            i += 1;
        }
        v.into_iter().collect()
    };
    prop_oneof![
        3 => Just(seq("dense-from-0", 0)),
        3 => Just(seq("ascii", 97)),
        2 => prop::collection::btree_set(any::<u32>(), size..=size)
            .prop_map(|s| ("spread-u32".to_string(), s.into_iter().collect::<Vec<u32>>())),
        1 => Just(seq("around-2^20", (1u32 << 20) - n / 2)),
        1 => Just(seq("top-of-u32", u32::MAX - (n - 1))),
        1 => Just(seq("top-of-unicode", 0x10FFFF - (n - 1))),
        2 => Just(("mixed-extremes".to_string(), mixed)),
    ]
    .boxed()
}

/////////////////////////////////////////////// texts //////////////////////////////////////////////

fn len_strategy(max_len: usize) -> BoxedStrategy<usize> {
    prop_oneof![
        3 => Just(1usize),
        12 => 2usize..=12,
        12 => 13usize..=80,
        8 => 81usize..=600,
        3 => 601usize..=3000,
        1 => 3001usize..=9000,
        1 => 8200usize..=20000,
    ]
    .prop_map(move |n| n.min(max_len).max(1))
    .boxed()
}

fn de_bruijn(k: usize, n: usize) -> Vec<usize> {
    // Standard Lyndon-word construction (FKM algorithm).
    fn db(t: usize, p: usize, k: usize, n: usize, a: &mut Vec<usize>, seq: &mut Vec<usize>) {
        if t > n {
            if n % p == 0 {
                seq.extend_from_slice(&a[1..=p]);
            }
        } else {
            a[t] = a[t - p];
            db(t + 1, p, k, n, a, seq);
            for j in a[t - p] + 1..k {
                a[t] = j;
                db(t + 1, t, k, n, a, seq);
            }
        }
    }
    let mut a = vec![0usize; k * n + 1];
    let mut seq = vec![];
    db(1, 1, k, n, &mut a, &mut seq);
    seq
}

fn text_for(al: Vec<u32>, max_len: usize) -> BoxedStrategy<(String, Vec<u32>)> {
    let a = al.len();
    let pick = {
        let al = al.clone();
        move |s: u16| al[sel(s, al.len())]
    };
    let random = {
        let pick = pick.clone();
        len_strategy(max_len)
            .prop_flat_map(|n| prop::collection::vec(any::<u16>(), n))
            .prop_map(move |v| ("random".to_string(), v.into_iter().map(&pick).collect::<Vec<u32>>()))
    };
    let skewed = {
        let al = al.clone();
        len_strategy(max_len)
            .prop_flat_map(|n| prop::collection::vec((any::<u16>(), any::<u16>()), n))
            .prop_map(move |v| {
                let t = v.into_iter().map(|(x, y)| al[sel(x, sel(y, al.len()) + 1)]).collect::<Vec<u32>>();
                ("skewed".to_string(), t)
            })
    };
    // every alphabet symbol at least once (so the alphabet size is exactly |al|), then random
    let cover = {
        let pick = pick.clone();
        let extra = max_len.saturating_sub(a).min(600);
        (Just(al.clone()).prop_shuffle(), prop::collection::vec(any::<u16>(), 0..=extra)).prop_map(move |(mut p, v)| {
            p.extend(v.into_iter().map(&pick));
            ("cover-alphabet".to_string(), p)
        })
    };
    let all_equal = {
        let pick = pick.clone();
        (len_strategy(max_len), any::<u16>()).prop_map(move |(n, s)| ("all-equal".to_string(), vec![pick(s); n]))
    };
    let periodic = {
        let pick = pick.clone();
        (len_strategy(max_len), prop::collection::vec(any::<u16>(), 1..=8)).prop_map(move |(n, unit)| {
            let unit: Vec<u32> = unit.into_iter().map(&pick).collect();
            let t = (0..n).map(|i| unit[i % unit.len()]).collect::<Vec<u32>>();
            (format!("periodic-{}", unit.len()), t)
        })
    };
    let cycle = {
        let al = al.clone();
        len_strategy(max_len).prop_map(move |n| ("alphabet-cycle".to_string(), (0..n).map(|i| al[i % al.len()]).collect::<Vec<u32>>()))
    };
    let debruijn = {
        let al = al.clone();
        (2usize..=4, 1usize..=6, any::<u16>(), any::<bool>()).prop_map(move |(k, order, cut, wrap)| {
            let k = k.min(al.len()).max(1);
            let mut order = order;
            while k.pow(order as u32) > max_len.min(4096) && order > 1 {
                order -= 1;
            }
            let mut seq = de_bruijn(k, order);
            if wrap {
                // linearise: every k-ary word of length `order` occurs exactly once
                let head: Vec<usize> = seq[..(order - 1).min(seq.len())].to_vec();
                seq.extend(head);
            } else {
                let keep = 1 + sel(cut, seq.len());
                seq.truncate(keep);
            }
            seq.truncate(max_len.max(1));
            let step = if k > 1 { (al.len() - 1) / (k - 1) } else { 0 };
            let t = seq.into_iter().map(|i| al[i * step]).collect::<Vec<u32>>();
            ("de-bruijn".to_string(), t)
        })
    };
    let fibonacci = {
        let al = al.clone();
        (len_strategy(max_len), any::<bool>()).prop_map(move |(n, thue)| {
            let (x, y) = (al[0], al[al.len() - 1]);
            let t: Vec<u32> = if thue {
                (0..n).map(|i| if (i as u64).count_ones() % 2 == 0 { x } else { y }).collect()
            } else {
                let mut s = vec![x];
                let mut prev = vec![y];
                while s.len() < n {
                    let next: Vec<u32> = s.iter().chain(prev.iter()).copied().collect();
                    prev = s;
                    s = next;
                }
                s.truncate(n);
                s
            };
            (if thue { "thue-morse" } else { "fibonacci-word" }.to_string(), t)
        })
    };
    let runs = {
        let pick = pick.clone();
        prop::collection::vec((any::<u16>(), 1usize..=150), 1..=60).prop_map(move |rs| {
            let mut t = vec![];
            for (s, n) in rs {
                let c = pick(s);
                t.extend(std::iter::repeat_n(c, n));
            }
            t.truncate(max_len.max(1));
            ("runs".to_string(), t)
        })
    };
    let repetitive = {
        let pick = pick.clone();
        (
            prop::collection::vec(any::<u16>(), 2..=40),
            2usize..=200,
            prop::collection::vec((any::<u16>(), any::<u16>()), 0..=6),
        )
            .prop_map(move |(block, copies, muts)| {
                let block: Vec<u32> = block.into_iter().map(&pick).collect();
                let mut t: Vec<u32> = vec![];
                for _ in 0..copies {
                    t.extend_from_slice(&block);
                }
                t.truncate(max_len.max(1));
                for (p, s) in muts {
                    let i = sel(p, t.len());
                    t[i] = pick(s);
                }
                ("repeated-block".to_string(), t)
            })
    };
    let monotone = {
        let pick = pick.clone();
        (len_strategy(max_len).prop_flat_map(|n| prop::collection::vec(any::<u16>(), n)), any::<bool>()).prop_map(move |(v, desc)| {
            let mut t: Vec<u32> = v.into_iter().map(&pick).collect();
            t.sort();
            if desc {
                t.reverse();
            }
            (if desc { "descending" } else { "ascending" }.to_string(), t)
        })
    };
    prop_oneof![
        6 => random,
        2 => skewed,
        3 => cover,
        2 => all_equal,
        3 => periodic,
        1 => cycle,
        2 => debruijn,
        2 => fibonacci,
        2 => runs,
        3 => repetitive,
        1 => monotone,
    ]
    .boxed()
}

//////////////////////////////////////////// boundaries ////////////////////////////////////////////

#[derive(Clone, Debug)]
enum BSpec {
    One,
    Every,
    Random(Vec<u16>),
    Regular(usize),
    /// two records, the last one a single symbol
    LastSymbol,
    /// records of length 1 next to long ones
    Pairs(Vec<u16>),
    // inputs `check_record_boundaries` must reject
    InvalidEmpty,
    InvalidNotZero,
    InvalidDuplicate(u16),
    InvalidAtLen,
    InvalidUnsorted(u16),
}

fn bspec() -> BoxedStrategy<BSpec> {
    prop_oneof![
        4 => Just(BSpec::One),
        3 => Just(BSpec::Every),
        4 => prop::collection::vec(any::<u16>(), 1..=4).prop_map(BSpec::Random),
        3 => prop::collection::vec(any::<u16>(), 5..=40).prop_map(BSpec::Random),
        2 => prop::collection::vec(any::<u16>(), 41..=400).prop_map(BSpec::Random),
        2 => (2usize..=70).prop_map(BSpec::Regular),
        1 => Just(BSpec::LastSymbol),
        2 => prop::collection::vec(any::<u16>(), 1..=20).prop_map(BSpec::Pairs),
        1 => prop_oneof![
            Just(BSpec::InvalidEmpty),
            Just(BSpec::InvalidNotZero),
            any::<u16>().prop_map(BSpec::InvalidDuplicate),
            Just(BSpec::InvalidAtLen),
            any::<u16>().prop_map(BSpec::InvalidUnsorted),
        ],
    ]
    .boxed()
}

fn realise_boundaries(spec: &BSpec, n: usize) -> (String, Vec<usize>) {
    let clean = |mut v: Vec<usize>| {
        v.push(0);
        v.retain(|x| *x < n.max(1));
        v.sort();
        v.dedup();
        v
    };
    match spec {
        BSpec::One => ("one-record".into(), vec![0]),
        BSpec::Every => ("one-symbol-per-record".into(), (0..n.max(1)).collect()),
        BSpec::Random(s) => {
            let v = if n >= 2 { s.iter().map(|x| 1 + sel(*x, n - 1)).collect() } else { vec![] };
            ("random".into(), clean(v))
        }
        BSpec::Regular(step) => ("regular".into(), clean((0..n).step_by(*step).collect())),
        BSpec::LastSymbol => ("last-record-one-symbol".into(), clean(vec![n.saturating_sub(1)])),
        BSpec::Pairs(s) => {
            let mut v = vec![];
            if n >= 3 {
                for x in s {
                    let p = 1 + sel(*x, n - 2);
                    v.push(p);
                    v.push(p + 1);
                }
            }
            ("adjacent-pairs".into(), clean(v))
        }
        BSpec::InvalidEmpty => ("invalid-empty".into(), vec![]),
        BSpec::InvalidNotZero => ("invalid-not-from-zero".into(), if n >= 2 { vec![1] } else { vec![1, 2] }),
        BSpec::InvalidDuplicate(x) => {
            let p = sel(*x, n.max(1));
            ("invalid-duplicate".into(), if p == 0 { vec![0, 0] } else { vec![0, p, p] })
        }
        BSpec::InvalidAtLen => ("invalid-boundary-at-len".into(), if n == 0 { vec![0, 1] } else { vec![0, n] }),
        BSpec::InvalidUnsorted(x) => {
            let p = 1 + sel(*x, n.max(2) - 1);
            ("invalid-unsorted".into(), vec![0, p + 1, p])
        }
    }
}

/// The harness' own statement of the construct precondition (from `check_record_boundaries`).
pub fn boundaries_valid(text_len: usize, b: &[usize]) -> bool {
    !b.is_empty() && b[0] == 0 && b.windows(2).all(|w| w[0] < w[1]) && b[b.len() - 1] < text_len
}

////////////////////////////////////////////// needles /////////////////////////////////////////////

#[derive(Clone, Debug)]
enum NSpec {
    Sub { start: u16, len: u16, maxlen: usize },
    Cross { b: u16, before: u16, after: u16 },
    Mutated { start: u16, len: u16, pos: u16, with: u16 },
    AbsentSingle { which: u16 },
    AbsentIn { start: u16, len: u16, pos: u16, which: u16 },
    Empty,
    Whole,
    WholePlus { with: u16 },
    Prefix { len: u16 },
    Suffix { len: u16 },
    Single { which: u16 },
    Run { which: u16, len: u16 },
    Doubled { start: u16, len: u16 },
    /// exactly one record
    Record { r: u16 },
    /// the first / last symbols of one record (starts at a record start / ends at a record end)
    RecordEdge { r: u16, len: u16, tail: bool },
    /// from inside record i-1, over all of record i, into record i+1 (two boundaries)
    CrossTwo { r: u16, before: u16, after: u16 },
    /// from before the last boundary to the end of the text
    CrossToEnd { before: u16 },
}

fn nspec() -> BoxedStrategy<NSpec> {
    let u = any::<u16>;
    prop_oneof![
        5 => (u(), u()).prop_map(|(start, len)| NSpec::Sub { start, len, maxlen: 4 }),
        4 => (u(), u()).prop_map(|(start, len)| NSpec::Sub { start, len, maxlen: 24 }),
        2 => (u(), u()).prop_map(|(start, len)| NSpec::Sub { start, len, maxlen: usize::MAX }),
        4 => (u(), u(), u()).prop_map(|(b, before, after)| NSpec::Cross { b, before, after }),
        3 => (u(), u(), u(), u()).prop_map(|(start, len, pos, with)| NSpec::Mutated { start, len, pos, with }),
        2 => u().prop_map(|which| NSpec::AbsentSingle { which }),
        2 => (u(), u(), u(), u()).prop_map(|(start, len, pos, which)| NSpec::AbsentIn { start, len, pos, which }),
        1 => Just(NSpec::Empty),
        1 => Just(NSpec::Whole),
        1 => u().prop_map(|with| NSpec::WholePlus { with }),
        1 => u().prop_map(|len| NSpec::Prefix { len }),
        2 => u().prop_map(|len| NSpec::Suffix { len }),
        3 => u().prop_map(|which| NSpec::Single { which }),
        2 => (u(), u()).prop_map(|(which, len)| NSpec::Run { which, len }),
        1 => (u(), u()).prop_map(|(start, len)| NSpec::Doubled { start, len }),
        1 => u().prop_map(|r| NSpec::Record { r }),
        1 => (u(), u(), any::<bool>()).prop_map(|(r, len, tail)| NSpec::RecordEdge { r, len, tail }),
        1 => (u(), u(), u()).prop_map(|(r, before, after)| NSpec::CrossTwo { r, before, after }),
        1 => u().prop_map(|before| NSpec::CrossToEnd { before }),
    ]
    .boxed()
}

/// Code points that do not occur in the text: below, above, in gaps, and the extremes.
pub fn absent_symbols(distinct: &[u32]) -> Vec<u32> {
    let mut out = vec![];
    if distinct.is_empty() {
        return vec![0, 7, u32::MAX];
    }
    let lo = distinct[0];
    let hi = distinct[distinct.len() - 1];
    if lo > 0 {
        out.push(lo - 1);
        out.push(0);
    }
    if hi < u32::MAX {
        out.push(hi + 1);
        out.push(u32::MAX);
    }
    let mut gaps = 0;
    for w in distinct.windows(2) {
        if w[0] + 1 < w[1] {
            out.push(w[0] + 1);
            gaps += 1;
            if gaps >= 4 {
                break;
            }
        }
    }
    out.sort();
    out.dedup();
    out
}

fn realise_needle(spec: &NSpec, text: &[u32], boundaries: &[usize], distinct: &[u32], absent: &[u32]) -> Needle {
    let n = text.len();
    let sub = |start: u16, len: u16, maxlen: usize| -> Vec<u32> {
        if n == 0 {
            return vec![];
        }
        let s = sel(start, n);
        let l = 1 + sel(len, (n - s).min(maxlen));
        text[s..s + l].to_vec()
    };
    let sym = |which: u16| -> u32 { if distinct.is_empty() { 1 } else { distinct[sel(which, distinct.len())] } };
    // `[start, limit)` of record `r` (boundaries are valid here)
    let record_span = |r: usize| -> (usize, usize) { (boundaries[r], if r + 1 < boundaries.len() { boundaries[r + 1] } else { n }) };
    let abs = |which: u16| -> u32 { absent[sel(which, absent.len())] };
    let (kind, syms): (&str, Vec<u32>) = match spec {
        NSpec::Sub { start, len, maxlen } => ("substring", sub(*start, *len, *maxlen)),
        NSpec::Cross { b, before, after } => {
            if boundaries.len() >= 2 && n > 0 {
                let at = boundaries[1 + sel(*b, boundaries.len() - 1)].min(n);
                let lo = at - (1 + sel(*before, at.min(6)));
                let hi = (at + 1 + sel(*after, (n - at).min(6))).min(n);
                ("across-record-boundary", text[lo..hi].to_vec())
            } else {
                ("substring", sub(*b, *before, 8))
            }
        }
        NSpec::Mutated { start, len, pos, with } => {
            let mut s = sub(*start, *len, 24);
            if !s.is_empty() {
                let p = sel(*pos, s.len());
                s[p] = sym(*with);
            }
            ("mutated-substring", s)
        }
        NSpec::AbsentSingle { which } => ("absent-symbol", vec![abs(*which)]),
        NSpec::AbsentIn { start, len, pos, which } => {
            let mut s = sub(*start, *len, 24);
            if s.is_empty() {
                s.push(abs(*which));
            } else {
                let p = sel(*pos, s.len());
                s[p] = abs(*which);
            }
            ("substring-with-absent-symbol", s)
        }
        NSpec::Empty => ("empty", vec![]),
        NSpec::Whole => ("whole-text", text.to_vec()),
        NSpec::WholePlus { with } => {
            let mut s = text.to_vec();
            s.push(sym(*with));
            ("longer-than-text", s)
        }
        NSpec::Prefix { len } => ("prefix", if n == 0 { vec![] } else { text[..1 + sel(*len, n)].to_vec() }),
        NSpec::Suffix { len } => ("suffix", if n == 0 { vec![] } else { text[n - 1 - sel(*len, n)..].to_vec() }),
        NSpec::Single { which } => ("single-symbol", vec![sym(*which)]),
        NSpec::Run { which, len } => ("symbol-run", vec![sym(*which); 2 + sel(*len, n.min(40))]),
        NSpec::Doubled { start, len } => {
            let s = sub(*start, *len, 12);
            let mut d = s.clone();
            d.extend(s);
            ("doubled-substring", d)
        }
        NSpec::Record { r } => {
            if n > 0 && !boundaries.is_empty() {
                let (lo, hi) = record_span(sel(*r, boundaries.len()));
                ("whole-record", text[lo..hi].to_vec())
            } else {
                ("whole-text", text.to_vec())
            }
        }
        NSpec::RecordEdge { r, len, tail } => {
            if n > 0 && !boundaries.is_empty() {
                let (lo, hi) = record_span(sel(*r, boundaries.len()));
                let l = 1 + sel(*len, (hi - lo).min(8));
                if *tail { ("record-suffix", text[hi - l..hi].to_vec()) } else { ("record-prefix", text[lo..lo + l].to_vec()) }
            } else {
                ("substring", sub(*r, *len, 8))
            }
        }
        NSpec::CrossTwo { r, before, after } => {
            // prefer a short middle record so that the needle stays short
            let nb = boundaries.len();
            if nb >= 3 && n > 0 {
                let pick = 1 + sel(*r, nb - 2);
                let mid = (pick..nb - 1).chain(1..pick).find(|i| record_span(*i).1 - record_span(*i).0 <= 48).unwrap_or(pick);
                let (lo, hi) = record_span(mid);
                let lo = lo - (1 + sel(*before, (lo - record_span(mid - 1).0).min(4)));
                let hi = hi + 1 + sel(*after, (record_span(mid + 1).1 - hi).min(4));
                ("across-two-record-boundaries", text[lo..hi].to_vec())
            } else {
                ("substring", sub(*r, *before, 8))
            }
        }
        NSpec::CrossToEnd { before } => {
            if boundaries.len() >= 2 && n > 0 {
                let last = boundaries[boundaries.len() - 1];
                let lo = last - (1 + sel(*before, (last - boundaries[boundaries.len() - 2]).min(6)));
                ("across-last-boundary-to-text-end", text[lo..].to_vec())
            } else {
                ("suffix", if n == 0 { vec![] } else { text[n - 1 - sel(*before, n)..].to_vec() })
            }
        }
    };
    Needle { kind: kind.to_string(), syms }
}

pub fn distinct_symbols(text: &[u32]) -> Vec<u32> {
    let mut d = text.to_vec();
    d.sort();
    d.dedup();
    d
}

////////////////////////////////////////////// the case ////////////////////////////////////////////

/// `(alphabet family, class, text)`.
pub fn text_strategy(max_len: usize, max_alpha: usize) -> BoxedStrategy<(String, String, Vec<u32>)> {
    let nonempty = alpha_size(max_alpha)
        .prop_flat_map(alphabet)
        .prop_flat_map(move |(fam, al)| text_for(al, max_len).prop_map(move |(class, text)| (fam.clone(), class, text)));
    prop_oneof![
        60 => nonempty,
        1 => Just(("none".to_string(), "empty".to_string(), vec![])),
    ]
    .boxed()
}

pub fn doc_case(max_len: usize) -> BoxedStrategy<DocCase> {
    text_strategy(max_len, 4000).prop_flat_map(|(alpha, class, text)| doc_case_from_text(alpha, class, text)).boxed()
}

/// Boundaries, needles and probes for a given text.
pub fn doc_case_from_text(alpha: String, class: String, text: Vec<u32>) -> BoxedStrategy<DocCase> {
    (
        Just((alpha, class, text)),
        bspec(),
        prop::collection::vec(nspec(), 8..=14),
        prop::collection::vec(any::<u16>(), 24),
    )
        .prop_map(|((alpha, class, text), bs, ns, probes)| {
            let (bclass, boundaries) = realise_boundaries(&bs, text.len());
            let distinct = distinct_symbols(&text);
            let absent = absent_symbols(&distinct);
            // needles refer to valid boundaries only
            let vb: Vec<usize> = if boundaries_valid(text.len(), &boundaries) { boundaries.clone() } else { vec![0] };
            let needles = ns.iter().map(|s| realise_needle(s, &text, &vb, &distinct, &absent)).collect();
            DocCase {
                class,
                alpha,
                text,
                bclass,
                boundaries,
                needles,
                probes,
            }
        })
        .boxed()
}
