//! Document parts of C19: `CompressedDocument` vs `ReferenceDocument` vs a naive scan.

use buffertk::Unpackable;
use proptest::prelude::*;
use scrunch::builder::Builder;
use scrunch::{CompressedDocument, Document, RecordOffset, ReferenceDocument, TextOffset};
use vcore::gens::sel;
use vcore::{Ctx, Outcome, Property, Tier};

use crate::textgen::{DocCase, boundaries_valid, distinct_symbols, doc_case};

///////////////////////////////////////////// naive model //////////////////////////////////////////

pub struct Model<'a> {
    pub text: &'a [u32],
    pub b: &'a [usize],
}

impl Model<'_> {
    pub fn search(&self, needle: &[u32]) -> Vec<usize> {
        let n = self.text.len();
        if needle.is_empty() {
            // Contract adopted from the common behaviour of both implementations (see assumptions).
            return (0..n).collect();
        }
        if needle.len() > n {
            return vec![];
        }
        let mut out = vec![];
        let first = needle[0];
        for i in 0..=n - needle.len() {
            if self.text[i] == first && &self.text[i..i + needle.len()] == needle {
                out.push(i);
            }
        }
        out
    }
    pub fn lookup(&self, off: usize) -> usize {
        self.b.partition_point(|x| *x <= off) - 1
    }
    pub fn retrieve(&self, r: usize) -> &[u32] {
        let lo = self.b[r];
        let hi = if r + 1 < self.b.len() { self.b[r + 1] } else { self.text.len() };
        &self.text[lo..hi]
    }
}

pub fn show_syms(s: &[u32]) -> String {
    if s.len() <= 48 {
        format!("{s:?}")
    } else {
        format!("{:?}…(+{} more, len {})", &s[..32], s.len() - 32, s.len())
    }
}

pub(crate) fn show_case(c: &DocCase) -> String {
    let b = if c.boundaries.len() <= 24 {
        format!("{:?}", c.boundaries)
    } else {
        format!("{:?}…({} records)", &c.boundaries[..16], c.boundaries.len())
    };
    format!("text[{}]={} boundaries={}", c.text.len(), show_syms(&c.text), b)
}

pub(crate) fn construct<D: Document>(text: &[u32], boundaries: &[usize]) -> Result<Vec<u8>, scrunch::Error> {
    let mut buf = Vec::new();
    let mut builder = Builder::new(&mut buf);
    D::construct(text.to_vec(), boundaries.to_vec(), &mut builder)?;
    drop(builder);
    Ok(buf)
}

/// Offsets at which `lookup` is compared: all of a short text, else strided + record edges + probes.
fn offsets_to_probe(c: &DocCase) -> Vec<usize> {
    let n = c.text.len();
    if n <= 1500 {
        return (0..n).collect();
    }
    let step = n / 700;
    let mut v: Vec<usize> = (0..n).step_by(step.max(1)).collect();
    v.push(n - 1);
    let nb = c.boundaries.len();
    for (i, b) in c.boundaries.iter().enumerate() {
        if i < 300 || i + 60 >= nb {
            v.push(*b);
            if *b > 0 {
                v.push(*b - 1);
            }
            if *b + 1 < n {
                v.push(*b + 1);
            }
        }
    }
    for p in c.probes.iter() {
        v.push(sel(*p, n));
    }
    v.sort();
    v.dedup();
    v
}

/// Compare every `Document` query of `d` with the naive scan.  `tag` names the implementation.
pub(crate) fn check_queries<D: Document>(tag: &str, d: &D, c: &DocCase, m: &Model, expect: &[Vec<usize>], o: &mut Outcome) {
    let n = c.text.len();
    let recs = c.boundaries.len();
    if d.len() != n {
        o.fail(format!("{tag}:len"), format!("{tag}.len() = {} but the text has {} symbols; {}", d.len(), n, show_case(c)));
        return;
    }
    if d.is_empty() != (n == 0) {
        o.fail(format!("{tag}:is_empty"), format!("{tag}.is_empty() = {} for a text of {} symbols", d.is_empty(), n));
        return;
    }
    if d.records() != recs {
        o.fail(format!("{tag}:records"), format!("{tag}.records() = {} but there are {} records; {}", d.records(), recs, show_case(c)));
        return;
    }
    // search / count.  `count` is compared for every needle; `search` materialises every
    // occurrence through the sampled suffix array, so in long texts it is compared while a budget
    // of reported positions lasts (and for at least one needle beyond it).
    let mut budget = SEARCH_BUDGET;
    let mut one_heavy = false;
    for (needle, want) in c.needles.iter().zip(expect.iter()) {
        match d.count(&needle.syms) {
            Ok(k) if k == want.len() => {}
            Ok(k) => {
                o.fail(
                    format!("{tag}:count"),
                    format!("{tag}.count({}) = {k}, naive scan finds {} occurrences ({} needle); {}", show_syms(&needle.syms), want.len(), needle.kind, show_case(c)),
                );
                return;
            }
            Err(e) => {
                o.fail(
                    format!("{tag}:count-error"),
                    format!("{tag}.count({}) = Err({e:?}), naive scan finds {} occurrences ({} needle); {}", show_syms(&needle.syms), want.len(), needle.kind, show_case(c)),
                );
                return;
            }
        }
        if want.len() > budget {
            if one_heavy {
                continue;
            }
            one_heavy = true;
        }
        budget = budget.saturating_sub(want.len());
        match d.search(&needle.syms) {
            Ok(it) => {
                let mut got: Vec<usize> = it.map(|t| t.0).collect();
                got.sort();
                if got != *want {
                    let dup = got.windows(2).any(|w| w[0] == w[1]);
                    o.fail(
                        format!("{tag}:search"),
                        format!(
                            "{tag}.search({}) = {} {}, naive scan finds {} ({} needle); {}",
                            show_syms(&needle.syms),
                            show_positions(&got),
                            if dup { "(with duplicates)" } else { "" },
                            show_positions(want),
                            needle.kind,
                            show_case(c)
                        ),
                    );
                    return;
                }
            }
            Err(e) => {
                o.fail(
                    format!("{tag}:search-error"),
                    format!("{tag}.search({}) = Err({e:?}), naive scan finds {} ({} needle); {}", show_syms(&needle.syms), show_positions(want), needle.kind, show_case(c)),
                );
                return;
            }
        }
    }
    // lookup
    for off in offsets_to_probe(c) {
        let want = m.lookup(off);
        match d.lookup(TextOffset(off)) {
            Ok(r) if r.0 == want => {}
            other => {
                o.fail(format!("{tag}:lookup"), format!("{tag}.lookup({off}) = {other:?}, offset {off} lies in record {want}; {}", show_case(c)));
                return;
            }
        }
    }
    // retrieve / offset_of for every record, and the first out-of-range record numbers
    for r in 0..recs {
        match d.offset_of(RecordOffset(r)) {
            Ok(t) if t.0 == c.boundaries[r] => {}
            other => {
                o.fail(format!("{tag}:offset_of"), format!("{tag}.offset_of({r}) = {other:?}, record {r} starts at {}; {}", c.boundaries[r], show_case(c)));
                return;
            }
        }
        let want = m.retrieve(r);
        match d.retrieve(RecordOffset(r)) {
            Ok(got) if got == want => {}
            Ok(got) => {
                o.fail(
                    format!("{tag}:retrieve"),
                    format!("{tag}.retrieve({r}) = {}, record {r} is {}; {}", show_syms(&got), show_syms(want), show_case(c)),
                );
                return;
            }
            Err(e) => {
                o.fail(format!("{tag}:retrieve-error"), format!("{tag}.retrieve({r}) = Err({e:?}), record {r} is {}; {}", show_syms(want), show_case(c)));
                return;
            }
        }
    }
    // Record numbers beyond the count, up to the largest the type can hold, in every mode.
    for r in [recs, recs + 1, recs + 17, n, n + 1, n + 2, 1 << 22, (1 << 32) + 1, 1 << 40, usize::MAX / 2, usize::MAX - 1] {
        if r < recs {
            continue;
        }
        if let Ok(got) = d.retrieve(RecordOffset(r)) {
            o.fail(
                format!("{tag}:retrieve-out-of-range"),
                format!("{tag}.retrieve({r}) = Ok({}) but there are only {recs} records; {}", show_syms(&got), show_case(c)),
            );
            return;
        }
        if let Ok(got) = d.offset_of(RecordOffset(r)) {
            o.fail(format!("{tag}:offset_of-out-of-range"), format!("{tag}.offset_of({r}) = Ok({got:?}) but there are only {recs} records; {}", show_case(c)));
            return;
        }
    }
    // Offsets that are not text offsets: the docs are silent and the two implementations differ
    // (see assumptions); only absence of panics is required, which `guard` provides.
    let _ = d.lookup(TextOffset(n));
    let _ = d.lookup(TextOffset(n + 1));
    let _ = d.lookup(TextOffset(usize::MAX));
}

/// Positions `search` may report per document before only `count` is compared.
const SEARCH_BUDGET: usize = 6000;

fn show_positions(p: &[usize]) -> String {
    if p.len() <= 24 {
        format!("{p:?}")
    } else {
        format!("{:?}…({} positions)", &p[..16], p.len())
    }
}

fn size_class(n: usize) -> &'static str {
    match n {
        0 => "0",
        1 => "1",
        2..=12 => "2-12",
        13..=80 => "13-80",
        81..=600 => "81-600",
        601..=3000 => "601-3000",
        3001..=8192 => "3001-8192",
        _ => ">8192",
    }
}

fn alpha_class(a: usize) -> &'static str {
    match a {
        0 => "0",
        1 => "1",
        2..=4 => "2-4",
        5..=30 => "5-30",
        31..=254 => "31-254",
        255 => "255(K=256,u8)",
        256 => "256(K=257,u16)",
        257..=1200 => "257-1200",
        _ => ">1200",
    }
}

fn records_class(r: usize) -> &'static str {
    match r {
        0 => "0",
        1 => "1",
        2..=16 => "2-16",
        17..=128 => "17-128",
        129..=256 => "129-256",
        _ => ">256",
    }
}

/// Labels and the non-trivial rule shared by both document parts.
pub(crate) fn describe(c: &DocCase, expect: &[Vec<usize>], valid: bool, o: &mut Outcome) {
    let distinct = distinct_symbols(&c.text);
    o.label(format!("text:{}", c.class));
    o.label(format!("alphabet-family:{}", c.alpha));
    o.label(format!("len:{}", size_class(c.text.len())));
    o.label(format!("alphabet:{}", alpha_class(distinct.len())));
    o.label(format!("boundaries:{}", c.bclass));
    if distinct.iter().any(|s| *s > (1 << 20)) {
        o.label("code-points>2^20");
    }
    if distinct.contains(&0) {
        o.label("uses-symbol-0");
    }
    if distinct.contains(&u32::MAX) {
        o.label("uses-symbol-u32::MAX");
    }
    if !valid {
        match c.bclass.as_str() {
            "invalid-duplicate" => o.label("empty-record(must-be-refused)"),
            "invalid-boundary-at-len" => o.label("empty-last-record:boundary-at-text-end(must-be-refused)"),
            _ => {}
        }
        return;
    }
    o.label(format!("records:{}", records_class(c.boundaries.len())));
    // Record-boundary classes (each label counts cases, not occurrences).
    let n = c.text.len();
    let b = &c.boundaries;
    let last_len = n - b[b.len() - 1];
    o.label(if last_len == 1 { "last-record:1-symbol" } else { "last-record:>=2-symbols" });
    if b.len() >= 2 && b[1] == 1 {
        o.label("first-record:1-symbol");
    }
    o.label(if n <= 1500 { "lookup-probed:every-offset" } else { "lookup-probed:stride+record-starts,ends,neighbours" });
    let record_of = |p: usize| b.partition_point(|x| *x <= p) - 1;
    let record_end = |r: usize| if r + 1 < b.len() { b[r + 1] } else { n };
    let mut many = false;
    let mut none = false;
    let mut seen = [false; 6];
    for (nd, e) in c.needles.iter().zip(expect.iter()) {
        let occ = match e.len() {
            0 => "0",
            1 => "1",
            2..=9 => "2-9",
            _ => ">=10",
        };
        o.label(format!("needle:{}:occ={}", nd.kind, occ));
        many |= e.len() >= 2 && !nd.syms.is_empty();
        none |= e.is_empty();
        let m = nd.syms.len();
        if m >= 1 {
            for p in e.iter().take(4000) {
                let (r0, r1) = (record_of(*p), record_of(*p + m - 1));
                let at_start = b[r0] == *p;
                let at_end = record_end(r1) == *p + m;
                seen[0] |= r1 > r0;
                seen[1] |= r1 > r0 + 1;
                seen[2] |= at_start;
                seen[3] |= at_end;
                seen[4] |= at_start && at_end && r0 == r1;
                seen[5] |= *p + m == n && r1 > r0;
            }
        }
    }
    for (hit, name) in seen.iter().zip([
        "needle-occurrence-crosses-record-boundary",
        "needle-occurrence-crosses>=2-record-boundaries",
        "needle-occurrence-starts-at-record-start",
        "needle-occurrence-ends-at-record-end",
        "needle-occurrence-is-exactly-one-record",
        "needle-occurrence-crosses-a-boundary-and-reaches-text-end",
    ]) {
        if *hit {
            o.label(name);
        }
    }
    o.nontrivial = c.boundaries.len() >= 2 && many && none;
}

///////////////////////////////////////////// queries part /////////////////////////////////////////

pub struct DocQueries;

fn max_len(tier: Tier) -> usize {
    tier.pick(9000, 20000)
}

impl Property for DocQueries {
    type Case = DocCase;
    fn name(&self) -> String {
        "document-queries".into()
    }
    fn cases(&self, tier: Tier) -> u64 {
        tier.pick(1500, 25_000)
    }
    fn strategy(&self, ctx: &Ctx) -> BoxedStrategy<DocCase> {
        doc_case(max_len(ctx.tier))
    }
    fn max_shrink_iters(&self) -> u32 {
        300
    }
    fn run(&self, _: &Ctx, c: &DocCase) -> Outcome {
        let mut o = Outcome::pass();
        let valid = boundaries_valid(c.text.len(), &c.boundaries);
        let m = Model {
            text: &c.text,
            b: &c.boundaries,
        };
        let expect: Vec<Vec<usize>> = if valid { c.needles.iter().map(|nd| m.search(&nd.syms)).collect() } else { vec![] };
        describe(c, &expect, valid, &mut o);
        let cbuf = construct::<CompressedDocument>(&c.text, &c.boundaries);
        let rbuf = construct::<ReferenceDocument>(&c.text, &c.boundaries);
        if !valid {
            // Inputs outside the documented domain: both must refuse (never panic).
            if cbuf.is_ok() || rbuf.is_ok() {
                o.fail(
                    "construct-accepts-invalid-boundaries",
                    format!("construct accepted invalid input: compressed ok={} reference ok={}; {}", cbuf.is_ok(), rbuf.is_ok(), show_case(c)),
                );
            }
            return o;
        }
        let cbuf = match cbuf {
            Ok(b) => b,
            Err(e) => {
                o.fail("compressed:construct-error", format!("CompressedDocument::construct = Err({e:?}) on valid input; {}", show_case(c)));
                return o;
            }
        };
        let rbuf = match rbuf {
            Ok(b) => b,
            Err(e) => {
                o.fail("reference:construct-error", format!("ReferenceDocument::construct = Err({e:?}) on valid input; {}", show_case(c)));
                return o;
            }
        };
        let cdoc = match CompressedDocument::unpack(&cbuf) {
            Ok((d, _)) => d,
            Err(e) => {
                o.fail("compressed:unpack-error", format!("CompressedDocument::unpack of freshly constructed bytes = Err({e:?}); {}", show_case(c)));
                return o;
            }
        };
        let rdoc = match ReferenceDocument::unpack(&rbuf) {
            Ok((d, _)) => d,
            Err(e) => {
                o.fail("reference:unpack-error", format!("ReferenceDocument::unpack of freshly constructed bytes = Err({e:?}); {}", show_case(c)));
                return o;
            }
        };
        check_queries("compressed", &cdoc, c, &m, &expect, &mut o);
        if o.failed() {
            return o;
        }
        check_queries("reference", &rdoc, c, &m, &expect, &mut o);
        o
    }
}

//////////////////////////////////////////// serialize part ////////////////////////////////////////

/// construct → bytes → parse; construct again → parse from a copy at another address/alignment:
/// both give the answers of the naive scan.  Whether the two byte strings are identical is a label.
pub struct DocSerialize;

impl Property for DocSerialize {
    type Case = DocCase;
    fn name(&self) -> String {
        "document-serialize".into()
    }
    fn cases(&self, tier: Tier) -> u64 {
        tier.pick(500, 6_000)
    }
    fn strategy(&self, ctx: &Ctx) -> BoxedStrategy<DocCase> {
        doc_case(ctx.tier.pick(3000, 9000))
    }
    fn max_shrink_iters(&self) -> u32 {
        300
    }
    fn run(&self, _: &Ctx, c: &DocCase) -> Outcome {
        let mut o = Outcome::pass();
        let valid = boundaries_valid(c.text.len(), &c.boundaries);
        if !valid {
            o.label("skipped:invalid-input");
            return o;
        }
        let m = Model {
            text: &c.text,
            b: &c.boundaries,
        };
        let expect: Vec<Vec<usize>> = c.needles.iter().map(|nd| m.search(&nd.syms)).collect();
        describe(c, &expect, valid, &mut o);
        let (buf1, buf2) = match (construct::<CompressedDocument>(&c.text, &c.boundaries), construct::<CompressedDocument>(&c.text, &c.boundaries)) {
            (Ok(a), Ok(b)) => (a, b),
            (a, b) => {
                o.fail("compressed:construct-error", format!("CompressedDocument::construct failed on valid input: {:?} / {:?}; {}", a.err(), b.err(), show_case(c)));
                return o;
            }
        };
        // Byte identity of two constructions is not part of the property (a tie broken by hash-map
        // iteration order would give different, equally valid bytes): recorded, not required.  Every
        // query oracle runs on both constructions below.
        o.label(if buf1 == buf2 { "construct:byte-identical" } else { "construct:bytes-differ-between-two-constructions" });
        // the second construction is parsed from a copy at a different address and alignment
        let shift = 1 + sel(c.probes.first().copied().unwrap_or(0), 7);
        let mut moved = vec![0xa5u8; shift];
        moved.extend_from_slice(&buf2);
        for (tag, bytes) in [("compressed-construction-1", &buf1[..]), ("compressed-construction-2-moved", &moved[shift..])] {
            match CompressedDocument::unpack(bytes) {
                Ok((d, rest)) => {
                    if !rest.is_empty() {
                        o.fail(format!("{tag}:trailing-bytes"), format!("unpack left {} unconsumed bytes", rest.len()));
                        return o;
                    }
                    check_queries(tag, &d, c, &m, &expect, &mut o);
                    if o.failed() {
                        return o;
                    }
                }
                Err(e) => {
                    o.fail(format!("{tag}:unpack-error"), format!("CompressedDocument::unpack = Err({e:?}); {}", show_case(c)));
                    return o;
                }
            }
        }
        // the reference document's serialisation
        let rbuf = match construct::<ReferenceDocument>(&c.text, &c.boundaries) {
            Ok(b) => b,
            Err(e) => {
                o.fail("reference:construct-error", format!("ReferenceDocument::construct = Err({e:?}); {}", show_case(c)));
                return o;
            }
        };
        let mut moved = vec![0x5au8; shift];
        moved.extend_from_slice(&rbuf);
        match ReferenceDocument::unpack(&moved[shift..]) {
            Ok((d, _)) => check_queries("reference-parse-2", &d, c, &m, &expect, &mut o),
            Err(e) => o.fail("reference-parse-2:unpack-error", format!("ReferenceDocument::unpack = Err({e:?}); {}", show_case(c))),
        }
        o
    }
}
