//! C14 — setsum is an order-independent, invertible, composable multiset checksum that equals its
//! published definition.
//!
//! Oracles: (1) algebraic laws between different evaluation orders of the same multiset,
//! (2) an arithmetic reference written here with `u128` integers over SHA3-256 words, and
//! (3) a fully independent Python reference (`hashlib.sha3_256` + integers) fed batches of the
//! generated cases.

use std::io::Write;
use std::process::{Command, Stdio};

use proptest::prelude::*;
use serde::{Deserialize, Serialize};
use serde_json::{Value, json};
use sha3::{Digest, Sha3_256};

use setsum::Setsum;
use vcore::{Check, Ctx, Outcome, Part, Property, Tier, WorkerReport};

const PRIMES: [u64; 8] = [
    4294967291, 4294967279, 4294967231, 4294967197, 4294967189, 4294967161, 4294967143, 4294967111,
];

/// Reference: columns as residues.
fn ref_item(pieces: &[&[u8]]) -> [u64; 8] {
    let mut h = Sha3_256::new();
    for p in pieces {
        h.update(p);
    }
    let d = h.finalize();
    let mut out = [0u64; 8];
    for i in 0..8 {
        let w = u32::from_le_bytes([d[4 * i], d[4 * i + 1], d[4 * i + 2], d[4 * i + 3]]) as u64;
        out[i] = w % PRIMES[i];
    }
    out
}

fn ref_add(a: [u64; 8], b: [u64; 8]) -> [u64; 8] {
    let mut o = [0u64; 8];
    for i in 0..8 {
        o[i] = ((a[i] as u128 + b[i] as u128) % PRIMES[i] as u128) as u64;
    }
    o
}

fn ref_neg(a: [u64; 8]) -> [u64; 8] {
    let mut o = [0u64; 8];
    for i in 0..8 {
        o[i] = (PRIMES[i] - a[i] % PRIMES[i]) % PRIMES[i];
    }
    o
}

fn residues(s: &Setsum) -> [u64; 8] {
    let d = s.digest();
    let mut out = [0u64; 8];
    for i in 0..8 {
        out[i] = u32::from_le_bytes([d[4 * i], d[4 * i + 1], d[4 * i + 2], d[4 * i + 3]]) as u64 % PRIMES[i];
    }
    out
}

fn canonical(s: &Setsum) -> bool {
    let d = s.digest();
    (0..8).all(|i| (u32::from_le_bytes([d[4 * i], d[4 * i + 1], d[4 * i + 2], d[4 * i + 3]]) as u64) < PRIMES[i])
}

fn hex(b: &[u8]) -> String {
    b.iter().map(|x| format!("{x:02x}")).collect()
}

//////////////////////////////////////////// multisets /////////////////////////////////////////////

#[derive(Clone, Debug, Serialize, Deserialize)]
struct MultisetCase {
    items: Vec<Vec<u8>>,
    /// a permutation of the item indices, as sort keys
    order: Vec<u16>,
    /// which items go to the second half of a union
    second: Vec<bool>,
    /// which items are removed again
    removed: Vec<bool>,
    /// split points for vectored insertion (selectors into each item)
    splits: Vec<Vec<u16>>,
}

/// Items whose SHA3-256 digest has a 32-bit word at or above its column's prime (the chance for a
/// random item is about 1.8e-7), found once by brute force with `c14 mine` using the sha3 crate
/// only.  They put the hash-reduction edge inside the generator's reach.
const MINED: &str = include_str!("../mined_items.txt");

fn mined_items() -> Vec<Vec<u8>> {
    MINED.lines().filter(|l| !l.is_empty() && !l.starts_with('#')).map(|l| l.split_whitespace().next().unwrap().as_bytes().to_vec()).collect()
}

fn item_strategy() -> impl Strategy<Value = Vec<u8>> {
    let mined = mined_items();
    prop_oneof![
        2 => any::<u16>().prop_map(move |s| mined[vcore::gens::sel(s, mined.len())].clone()),
        2 => Just(vec![]),
        4 => prop::collection::vec(any::<u8>(), 0..8),
        3 => prop::collection::vec(any::<u8>(), 0..80),
        1 => prop::collection::vec(any::<u8>(), 100..400),
        1 => prop::collection::vec(Just(0u8), 0..140),
    ]
}

fn multiset_strategy() -> impl Strategy<Value = MultisetCase> {
    (prop::collection::vec(item_strategy(), 0..12), prop::collection::vec(any::<u16>(), 0..4))
        .prop_flat_map(|(base, dup)| {
            // Repeated items: duplicate some of the base items.
            let mut items = base.clone();
            for d in dup {
                if !base.is_empty() {
                    items.push(base[vcore::gens::sel(d, base.len())].clone());
                }
            }
            let n = items.len();
            (
                Just(items),
                prop::collection::vec(any::<u16>(), n),
                prop::collection::vec(any::<bool>(), n),
                prop::collection::vec(any::<bool>(), n),
                prop::collection::vec(prop::collection::vec(any::<u16>(), 0..4), n),
            )
        })
        .prop_map(|(items, order, second, removed, splits)| MultisetCase {
            items,
            order,
            second,
            removed,
            splits,
        })
}

struct Multisets;

impl Property for Multisets {
    type Case = MultisetCase;
    fn name(&self) -> String {
        "multiset-laws".into()
    }
    fn cases(&self, tier: Tier) -> u64 {
        tier.pick(50_000, 1_000_000)
    }
    fn strategy(&self, _: &Ctx) -> BoxedStrategy<MultisetCase> {
        multiset_strategy().boxed()
    }
    fn run(&self, _: &Ctx, c: &MultisetCase) -> Outcome {
        let mut o = Outcome::pass();
        let n = c.items.len();
        let has_dup = (0..n).any(|i| (0..i).any(|j| c.items[i] == c.items[j]));
        let has_empty = c.items.iter().any(|i| i.is_empty());
        o.nontrivial = n >= 2;
        if has_dup {
            o.label("repeated-item");
        }
        if has_empty {
            o.label("empty-item");
        }
        if c.items.iter().any(|it| {
            let d = Sha3_256::digest(it);
            (0..8).any(|i| u32::from_le_bytes([d[4 * i], d[4 * i + 1], d[4 * i + 2], d[4 * i + 3]]) as u64 >= PRIMES[i])
        }) {
            o.label("item-with-hash-word-at-or-above-prime");
        }
        // forward order
        let mut fwd = Setsum::default();
        for it in c.items.iter() {
            fwd.insert(it);
        }
        // permuted order
        let mut idx: Vec<usize> = (0..n).collect();
        idx.sort_by_key(|i| (c.order[*i], *i));
        let mut perm = Setsum::default();
        for i in idx.iter() {
            perm.insert(&c.items[*i]);
        }
        if fwd != perm || fwd.digest() != perm.digest() {
            o.fail("order-dependent", format!("insertion order changed the setsum: {fwd:?} vs {perm:?}"));
            return o;
        }
        // reference value
        let mut r = [0u64; 8];
        for it in c.items.iter() {
            r = ref_add(r, ref_item(&[it]));
        }
        if residues(&fwd) != r || !canonical(&fwd) {
            o.fail("definition-mismatch", format!("setsum {fwd:?} != published definition {r:?}"));
            return o;
        }
        // union = sum
        let mut a = Setsum::default();
        let mut b = Setsum::default();
        for i in 0..n {
            if c.second[i] { b.insert(&c.items[i]) } else { a.insert(&c.items[i]) }
        }
        if a + b != fwd || b + a != fwd {
            o.fail("union-not-sum", format!("setsum(A)+setsum(B) {:?} != setsum(A∪B) {fwd:?}", a + b));
            return o;
        }
        let mut acc = a;
        acc += b;
        if acc != fwd {
            o.fail("union-not-sum", "AddAssign disagrees with Add".to_string());
            return o;
        }
        // subtraction undoes addition
        if fwd - b != a || fwd - a != b {
            o.fail("sub-not-inverse", format!("(A+B)-B {:?} != A {a:?}", fwd - b));
            return o;
        }
        let mut acc = fwd;
        acc -= b;
        if acc != a {
            o.fail("sub-not-inverse", "SubAssign disagrees with Sub".to_string());
            return o;
        }
        // remove undoes insert, in any interleaving (removals first = placeholders)
        let mut rem_after = fwd;
        let mut rem_first = Setsum::default();
        let mut expect = Setsum::default();
        for i in 0..n {
            if c.removed[i] {
                rem_after.remove(&c.items[i]);
                rem_first.remove(&c.items[i]);
            } else {
                expect.insert(&c.items[i]);
            }
        }
        for it in c.items.iter() {
            rem_first.insert(it);
        }
        if rem_after != expect || rem_first != expect {
            o.fail("remove-not-inverse", format!("insert-all then remove-some {rem_after:?} / remove-first {rem_first:?} != insert-rest {expect:?}"));
            return o;
        }
        if c.removed.iter().any(|x| *x) {
            o.label("with-removal");
        }
        // vectored insertion at every generated split == plain insertion
        let mut vect = Setsum::default();
        for i in 0..n {
            let it = &c.items[i];
            let mut cuts: Vec<usize> = c.splits[i].iter().map(|s| vcore::gens::sel(*s, it.len() + 1)).collect();
            cuts.sort();
            let mut pieces: Vec<&[u8]> = vec![];
            let mut prev = 0;
            for cut in cuts {
                pieces.push(&it[prev..cut]);
                prev = cut;
            }
            pieces.push(&it[prev..]);
            vect.insert_vectored(&pieces);
        }
        if vect != fwd {
            o.fail("vectored-differs", format!("insert_vectored of split items {vect:?} != insert {fwd:?}"));
            return o;
        }
        // remove_vectored of the same pieces undoes it; no pieces at all is the empty item
        let mut unv = vect;
        for i in 0..n {
            let it = &c.items[i];
            let mut cuts: Vec<usize> = c.splits[i].iter().map(|s| vcore::gens::sel(*s, it.len() + 1)).collect();
            cuts.sort();
            let mut pieces: Vec<&[u8]> = vec![];
            let mut prev = 0;
            for cut in cuts {
                pieces.push(&it[prev..cut]);
                prev = cut;
            }
            pieces.push(&it[prev..]);
            unv.remove_vectored(&pieces);
        }
        let (mut e1, mut e2) = (Setsum::default(), Setsum::default());
        e1.insert_vectored(&[]);
        e2.insert(&[]);
        if unv != Setsum::default() || e1 != e2 {
            o.fail("remove-vectored-not-inverse", format!("remove_vectored of the inserted pieces leaves {unv:?}; insert_vectored(&[]) = {e1:?}, insert(empty) = {e2:?}"));
            return o;
        }
        // the in-place operators are the operators
        let mut acc = fwd;
        acc += vect;
        let mut back = acc;
        back -= vect;
        if acc != fwd + vect || back != fwd {
            o.fail("assign-operators-differ", format!("+= / -= disagree with + / - for {fwd:?}"));
            return o;
        }
        // digests round-trip
        if Setsum::from_digest(fwd.digest()) != fwd {
            o.fail("digest-roundtrip", "from_digest(digest()) differs".to_string());
            return o;
        }
        let hx = fwd.hexdigest();
        if hx != hex(&fwd.digest()) || Setsum::from_hexdigest(&hx) != Some(fwd) {
            o.fail("hexdigest-roundtrip", format!("hexdigest {hx} does not round-trip"));
            return o;
        }
        o
    }
}

////////////////////////////////////////////// algebra /////////////////////////////////////////////

#[derive(Clone, Debug, Serialize, Deserialize)]
struct AlgebraCase {
    a: [u32; 8],
    b: [u32; 8],
    c: [u32; 8],
}

fn column(i: usize) -> impl Strategy<Value = u32> {
    let p = PRIMES[i] as u32;
    prop_oneof![
        3 => Just(0u32),
        2 => Just(1u32),
        3 => Just(p - 1),
        2 => Just(p),
        2 => Just(p + 1),
        2 => Just(u32::MAX),
        2 => (p..=u32::MAX),
        2 => (0..p),
        1 => (p / 2 - 2..p / 2 + 2),
    ]
}

fn canonical_column(i: usize) -> impl Strategy<Value = u32> {
    let p = PRIMES[i] as u32;
    prop_oneof![
        3 => Just(0u32),
        2 => Just(1u32),
        3 => Just(p - 1),
        4 => (0..p),
        1 => (p / 2 - 2..p / 2 + 2),
    ]
}

fn state(canon: bool) -> BoxedStrategy<[u32; 8]> {
    if canon {
        (
            canonical_column(0), canonical_column(1), canonical_column(2), canonical_column(3),
            canonical_column(4), canonical_column(5), canonical_column(6), canonical_column(7),
        )
            .prop_map(|(a, b, c, d, e, f, g, h)| [a, b, c, d, e, f, g, h])
            .boxed()
    } else {
        (column(0), column(1), column(2), column(3), column(4), column(5), column(6), column(7))
            .prop_map(|(a, b, c, d, e, f, g, h)| [a, b, c, d, e, f, g, h])
            .boxed()
    }
}

fn from_state(s: [u32; 8]) -> Setsum {
    let mut d = [0u8; 32];
    for i in 0..8 {
        d[4 * i..4 * i + 4].copy_from_slice(&s[i].to_le_bytes());
    }
    Setsum::from_digest(d)
}

fn to_ref(s: [u32; 8]) -> [u64; 8] {
    let mut o = [0u64; 8];
    for i in 0..8 {
        o[i] = s[i] as u64 % PRIMES[i];
    }
    o
}

struct Algebra {
    canon: bool,
}

impl Property for Algebra {
    type Case = AlgebraCase;
    fn name(&self) -> String {
        if self.canon { "algebra-canonical".into() } else { "algebra-any-digest".into() }
    }
    fn cases(&self, tier: Tier) -> u64 {
        tier.pick(150_000, 3_000_000)
    }
    fn strategy(&self, _: &Ctx) -> BoxedStrategy<AlgebraCase> {
        (state(self.canon), state(self.canon), state(self.canon))
            .prop_map(|(a, b, c)| AlgebraCase { a, b, c })
            .boxed()
    }
    fn run(&self, _: &Ctx, c: &AlgebraCase) -> Outcome {
        let mut o = Outcome::pass();
        let (a, b, cc) = (from_state(c.a), from_state(c.b), from_state(c.c));
        let (ra, rb, rc) = (to_ref(c.a), to_ref(c.b), to_ref(c.c));
        let noncanon = !(canonical(&a) && canonical(&b) && canonical(&cc));
        o.nontrivial = true;
        if noncanon {
            o.label("non-canonical-column");
        }
        let edge = |s: &[u32; 8]| (0..8).any(|i| s[i] == 0 || s[i] as u64 == PRIMES[i] - 1);
        if edge(&c.a) || edge(&c.b) {
            o.label("column-at-0-or-p-1");
        }
        // digest round trip is byte-exact for every digest
        for (s, st) in [(&a, &c.a), (&b, &c.b), (&cc, &c.c)] {
            let mut d = [0u8; 32];
            for i in 0..8 {
                d[4 * i..4 * i + 4].copy_from_slice(&st[i].to_le_bytes());
            }
            // A setsum's own digest and hex digest round-trip exactly.  For arbitrary bytes with a
            // column >= its prime an implementation may reduce on input: only residues are demanded.
            let back = Setsum::from_digest(s.digest());
            let hexback = Setsum::from_hexdigest(&s.hexdigest());
            let canon = (0..8).all(|i| (st[i] as u64) < PRIMES[i]);
            let exact = s.digest() == d;
            if back != *s || hexback != Some(*s) || (canon && !exact) || residues(s) != to_ref(*st) {
                o.fail("digest-roundtrip", format!("digest {} does not round-trip (from_digest(x).digest() = {}, hex {:?})", hex(&d), hex(&s.digest()), s.hexdigest()));
                return o;
            }
        }
        // every result is compared as residues with the integer reference
        let checks: Vec<(&str, Setsum, [u64; 8])> = vec![
            ("a+b", a + b, ref_add(ra, rb)),
            ("b+a", b + a, ref_add(ra, rb)),
            ("(a+b)+c", (a + b) + cc, ref_add(ref_add(ra, rb), rc)),
            ("a+(b+c)", a + (b + cc), ref_add(ref_add(ra, rb), rc)),
            ("a-b", a - b, ref_add(ra, ref_neg(rb))),
            ("(a+b)-b", (a + b) - b, ra),
            ("(a-b)+b", (a - b) + b, ra),
            ("a-a", a - a, [0u64; 8]),
            ("(a-b)-c", (a - b) - cc, ref_add(ra, ref_neg(ref_add(rb, rc)))),
            ("0-a+a", (Setsum::default() - a) + a, [0u64; 8]),
        ];
        for (what, got, want) in checks {
            if residues(&got) != want {
                o.fail(format!("law:{what}"), format!("{what}: got {got:?} (residues {:?}) want residues {want:?}; a={a:?} b={b:?} c={cc:?}", residues(&got)));
                return o;
            }
            // The documented algorithm of add_state is `(A[i] + B[i]) % P[i]` for every input, so
            // every result of + and - is canonical (column < prime) whatever the operands were;
            // otherwise equal multisets stop comparing equal and get different hex digests.
            if !canonical(&got) {
                o.fail(format!("non-canonical-result:{what}"), format!("{what} produced a column >= its prime although add_state is documented as (A[i] + B[i]) % P[i]: {got:?}; a={a:?} b={b:?} c={cc:?}"));
                return o;
            }
        }
        // the two public state functions against their documentation, exactly
        let sum = setsum::add_state(c.a, c.b);
        for i in 0..8 {
            let want = ((c.a[i] as u64 + c.b[i] as u64) % PRIMES[i]) as u32;
            if sum[i] != want {
                o.fail("add_state:documented-formula", format!("add_state column {i}: ({} + {}) % {} = {want}, got {}", c.a[i], c.b[i], PRIMES[i], sum[i]));
                return o;
            }
        }
        if setsum::add_state(c.a, setsum::invert_state(c.a)) != [0u32; 8] {
            o.fail("invert_state:not-an-inverse", format!("add_state(x, invert_state(x)) = {:?} for x = {:?}; documented to come out zero", setsum::add_state(c.a, setsum::invert_state(c.a)), c.a));
            return o;
        }
        // the in-place operators are the operators, for every operand
        let (mut pa, mut ma) = (a, a);
        pa += b;
        ma -= b;
        if pa != a + b || ma != a - b {
            o.fail("assign-operators-differ", format!("a += b gives {pa:?} (a + b = {:?}), a -= b gives {ma:?} (a - b = {:?}); a={a:?} b={b:?}", a + b, a - b));
            return o;
        }
        if a - a != Setsum::default() {
            o.fail("law:a-a", format!("a - a = {:?} is not the empty setsum; a = {a:?}", a - a));
            return o;
        }
        if !noncanon {
            if (a + b) - b != a || (a - b) + b != a || a + b != b + a || (a + b) + cc != a + (b + cc) {
                o.fail("law:equality", format!("a={a:?} b={b:?} c={cc:?}: laws hold as residues but not as values"));
                return o;
            }
        }
        o
    }
}

////////////////////////////////////////// entry framing ///////////////////////////////////////////

#[derive(Clone, Debug, Serialize, Deserialize)]
struct FramingCase {
    entries: Vec<(Vec<u8>, u64, Option<Vec<u8>>)>,
}

struct Framing;

impl Property for Framing {
    type Case = FramingCase;
    fn name(&self) -> String {
        "entry-framing".into()
    }
    fn cases(&self, tier: Tier) -> u64 {
        tier.pick(30_000, 500_000)
    }
    fn strategy(&self, _: &Ctx) -> BoxedStrategy<FramingCase> {
        let ts = prop_oneof![Just(0u64), Just(1u64), Just(u64::MAX), any::<u64>(), 0u64..300];
        prop::collection::vec(
            (
                prop::collection::vec(any::<u8>(), 0..12),
                ts,
                prop::option::weighted(0.7, prop::collection::vec(any::<u8>(), 0..12)),
            ),
            0..10,
        )
        .prop_map(|entries| FramingCase { entries })
        .boxed()
    }
    fn run(&self, _: &Ctx, c: &FramingCase) -> Outcome {
        let mut o = Outcome::pass();
        o.nontrivial = c.entries.len() >= 2;
        let mut s = sst::Setsum::default();
        let mut r = [0u64; 8];
        for (k, t, v) in c.entries.iter() {
            match v {
                Some(v) => {
                    s.put(k, *t, v);
                    r = ref_add(r, ref_item(&[&[8u8], k, &t.to_le_bytes(), v]));
                }
                None => {
                    s.del(k, *t);
                    r = ref_add(r, ref_item(&[&[9u8], k, &t.to_le_bytes()]));
                    o.label("tombstone");
                }
            }
        }
        if residues(&s.into_inner()) != r {
            o.fail("framing-mismatch", format!("sst::Setsum of entries {:?} != reference {r:?}", s));
            return o;
        }
        // insert(KeyValueRef) is the same as put/del
        let mut s2 = sst::Setsum::default();
        for (k, t, v) in c.entries.iter().rev() {
            s2.insert(sst::KeyValueRef { key: k, timestamp: *t, value: v.as_deref() });
        }
        if s2 != s {
            o.fail("framing-insert-differs", "insert(KeyValueRef) differs from put/del".to_string());
            return o;
        }
        // the wrapper's operators and digests are those of the raw setsum
        let mut first = sst::Setsum::default();
        let mut second = sst::Setsum::default();
        for (i, (k, t, v)) in c.entries.iter().enumerate() {
            (if i % 2 == 0 { &mut first } else { &mut second }).insert(sst::KeyValueRef { key: k, timestamp: *t, value: v.as_deref() });
        }
        let mut acc = first;
        acc += second;
        let mut back = acc;
        back -= second;
        if first + second != s || acc != s || s - second != first || back != first || (first + second).into_inner() != first.into_inner() + second.into_inner() {
            o.fail("wrapper-operators", format!("sst::Setsum +, +=, -, -= disagree with each other or with the raw setsum for entries {:?}", c.entries.len()));
            return o;
        }
        if s.digest() != s.into_inner().digest() || s.hexdigest() != s.into_inner().hexdigest() || sst::Setsum::from_digest(s.digest()) != s || sst::Setsum::from_hexdigest(&s.hexdigest()) != Some(s) {
            o.fail("wrapper-digests", format!("sst::Setsum digest / hexdigest / from_digest / from_hexdigest do not round-trip for {s:?}"));
        }
        o
    }
}

/////////////////////////////////////// python differential ////////////////////////////////////////

const PYREF: &str = r#"
import sys, hashlib
P=[4294967291,4294967279,4294967231,4294967197,4294967189,4294967161,4294967143,4294967111]
for line in sys.stdin:
    line=line.strip()
    cols=[0]*8
    if line:
        for tok in line.split(' '):
            sign=1
            if tok[0]=='-':
                sign=-1; tok=tok[1:]
            item=bytes.fromhex(tok[1:])
            h=hashlib.sha3_256(item).digest()
            for i in range(8):
                w=int.from_bytes(h[4*i:4*i+4],'little')
                cols[i]=(cols[i]+sign*(w%P[i]))%P[i]
    print(b''.join(c.to_bytes(4,'little') for c in cols).hex())
"#;

/// Generates multisets with the same strategy, evaluates them with `setsum`, and compares every
/// digest with the Python reference in one batch per worker.
struct PyDiff;

impl Part for PyDiff {
    fn name(&self) -> String {
        "python-differential".into()
    }
    fn worker(&self, ctx: &Ctx) -> WorkerReport {
        use proptest::strategy::ValueTree;
        use proptest::test_runner::{Config, RngSeed, TestRunner};
        let mut rep = WorkerReport::default();
        let n = ctx.tier.pick(10_000u64, 200_000);
        let seed = vcore::mix(ctx.seed ^ vcore::mix(ctx.worker as u64 + 77) ^ vcore::hash_str("pydiff"));
        let mut runner = TestRunner::new(Config { rng_seed: RngSeed::Fixed(seed), failure_persistence: None, ..Config::default() });
        let strat = (multiset_strategy(), prop::collection::vec(any::<bool>(), 16));
        let mut cases = vec![];
        let mut input = String::new();
        for _ in 0..n {
            let (c, neg) = strat.new_tree(&mut runner).unwrap().current();
            let mut s = Setsum::default();
            let mut toks = vec![];
            for (i, it) in c.items.iter().enumerate() {
                if neg[i % 16] && i % 3 == 2 {
                    s.remove(it);
                    toks.push(format!("-x{}", hex(it)));
                } else {
                    s.insert(it);
                    toks.push(format!("x{}", hex(it)));
                }
            }
            input.push_str(&toks.join(" "));
            input.push('\n');
            cases.push((c, s));
        }
        let child = Command::new("python3").arg("-c").arg(PYREF).stdin(Stdio::piped()).stdout(Stdio::piped()).spawn();
        let mut child = match child {
            Ok(c) => c,
            Err(e) => {
                rep.notes.push(format!("python3 unavailable: {e}"));
                rep.inconclusive += 1;
                return rep;
            }
        };
        let mut stdin = child.stdin.take().unwrap();
        let writer = std::thread::spawn(move || {
            let _ = stdin.write_all(input.as_bytes());
        });
        let out = child.wait_with_output().expect("python output");
        let _ = writer.join();
        let text = String::from_utf8_lossy(&out.stdout);
        let lines: Vec<&str> = text.lines().collect();
        if lines.len() != cases.len() {
            rep.notes.push(format!("python reference returned {} lines for {} cases", lines.len(), cases.len()));
            rep.inconclusive += 1;
            return rep;
        }
        for ((c, s), want) in cases.iter().zip(lines.iter()) {
            let mut o = Outcome::pass();
            o.nontrivial = c.items.len() >= 2;
            if s.hexdigest() != *want {
                o.fail("python-mismatch", format!("setsum {} != python reference {}", s.hexdigest(), want));
            }
            rep.record(&self.name(), vcore::case_hash(c), || serde_json::to_value(c).unwrap(), &o);
            if let Some(f) = o.failure {
                rep.violations.push(vcore::ViolationRec { part: self.name(), case: json!({"items": c.items, "want": want}), signature: f.signature, message: f.message, shrunk: false });
                break;
            }
        }
        rep
    }
    fn replay(&self, _: &Ctx, case: &Value) -> Outcome {
        // The saved case carries the Python answer; recompute the Rust side (all inserts).
        let mut o = Outcome::pass();
        let items: Vec<Vec<u8>> = serde_json::from_value(case["items"].clone()).unwrap_or_default();
        let mut s = Setsum::default();
        for (i, it) in items.iter().enumerate() {
            let _ = i;
            s.insert(it);
        }
        o.label(format!("rust={} python={}", s.hexdigest(), case["want"]));
        o.inconclusive = true;
        o
    }
}

/// `c14 mine <count> <threads>`: print items whose digest has a word >= its prime.
fn mine(args: &[String]) -> i32 {
    let want: usize = args.first().and_then(|s| s.parse().ok()).unwrap_or(10);
    let threads: u64 = args.get(1).and_then(|s| s.parse().ok()).unwrap_or(16);
    let found = std::sync::Arc::new(std::sync::Mutex::new(Vec::<String>::new()));
    let mut hs = vec![];
    for t in 0..threads {
        let found = std::sync::Arc::clone(&found);
        hs.push(std::thread::spawn(move || {
            let mut n = 0u64;
            loop {
                if found.lock().unwrap().len() >= want {
                    return;
                }
                for _ in 0..100_000 {
                    let item = format!("mined-{t}-{n}");
                    n += 1;
                    let d = Sha3_256::digest(item.as_bytes());
                    for i in 0..8 {
                        let w = u32::from_le_bytes([d[4 * i], d[4 * i + 1], d[4 * i + 2], d[4 * i + 3]]) as u64;
                        if w >= PRIMES[i] {
                            found.lock().unwrap().push(format!("{item} column={i} word=p+{}", w - PRIMES[i]));
                        }
                    }
                }
            }
        }));
    }
    for h in hs {
        let _ = h.join();
    }
    for l in found.lock().unwrap().iter() {
        println!("{l}");
    }
    0
}

fn main() {
    let check = Check::new(
        "C14",
        "exploration",
        "proptest-generated multisets of byte strings (empty, repeated, long, vectored splits) and triples of setsum values whose columns are drawn from {0,1,p-1,p,p+1,2^32-1,random}; each case checks the algebraic laws, byte-exact digest round trips, agreement with a u128 reference and (in batches) with a Python hashlib reference. Non-trivial: >= 2 items, or any algebra triple; distinct by structural hash of the case.",
    )
    .assume("SHA3-256 of the sha3 crate and of Python's hashlib are correct")
    .assume("for digests with a column >= its prime (reachable only through from_digest) operands are read as residues modulo the prime; every result of + and - must be canonical (add_state is documented as (A[i] + B[i]) % P[i]), a - a must be the empty setsum, and digest bytes must round-trip exactly")
    .pbt(Multisets)
    .pbt(Algebra { canon: true })
    .pbt(Algebra { canon: false })
    .pbt(Framing)
    .part(PyDiff);
    vcore::main_with(vec![check], &[("mine", mine)]);
}
