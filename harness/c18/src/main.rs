//! C18 — sync42: the work-coalescing queue runs each request once, in order, returning its own
//! result; the wait list beneath it has exactly one head and hands it on; the size-bounded LRU cache
//! is a sequential least-recently-used map with exact size accounting.

mod conc;
mod lru;
mod wcq;
mod wl;

use vcore::{Check, Ctx, Outcome};

/// Threaded cases run on OS schedules the harness does not own: a generated run executes the case
/// once, a replay (strict mode) executes it up to 50 times and reports the first failing run.
pub const REPLAY_RUNS: usize = 50;

pub fn repeat_if_replay(ctx: &Ctx, f: impl Fn() -> Outcome) -> Outcome {
    let n = if ctx.strict || ctx.replay { REPLAY_RUNS } else { 1 };
    let mut last = Outcome::pass();
    for _ in 0..n {
        last = f();
        if last.failed() || last.inconclusive {
            break;
        }
    }
    last
}

fn main() {
    let check = Check::new(
        "C18",
        "exploration",
        "Four proptest parts. lru-model: op sequences (insert, insert_no_evict, lookup, remove, pop; <= 60 ops, 1-6 keys, sizes from {0,1,2,cap-1,cap,cap+1,cap/2,cap/3+1,2^40,small}, capacities {0,1,2..11,12..99,1000,2^20}) against two admissible sequential LRU models (overwrite refreshes recency or not; lookup always does), plus model-independent size statements and a final drain by pop; non-trivial = >=1 eviction and >=1 overwrite and >=1 insert_no_evict that leaves the cache over capacity. waitlist-sequential: link / unlink(any live guard, by call or by drop) / store / iterate / get_waiter / notify_head sequences in one thread, optionally pre-rolled so the live window crosses the 65 536-slot ring's wrap-around, optionally filling the ring exactly; after every step exactly the oldest live guard is head; non-trivial = an out-of-order unlink while >=3 guards are live. waitlist-threads: 2-9 OS threads x 1-24 rounds of link / wait-until-head with the external-mutex protocol of lsmtk and of the queue (two unlink forms, plus out-of-order abandon), optionally one extra thread that holds 65 536-k slots (k in 0..3) so that other links must block (more waiters than slots) and releases them in order / reversed / even-odd; oracle: unique consecutive indices, pass order == link order, no slot reuse while linked, every thread gets through (stall decided exactly: all unfinished threads parked in untimed futex waits with unchanged context-switch counts over three snapshots and no harness sleep; a 30 s budget yields inconclusive, never a violation); non-trivial = >=1 thread actually parked and >=3 guards linked at once. coalescing-queue-threads: 2-16 OS threads x 20-200 do_work calls into one queue whose core is the harness's (policy always / never / up to n / refuse by input; generated delays inside work; generated yields/spins/sleeps before calls; CPU pinning class free / one CPU / two CPUs); oracle: own output, each input exactly once, can_batch honoured except for a batch's first input, entry order (an input first loaded from the queue before another call started must reach the core first), all calls return (same exact stall detector); non-trivial = >=1 batch with >=2 inputs. Distinct by structural hash of the case. Thread schedules come from the OS and are perturbed only by values that are part of the case; a saved threaded case is therefore replayed up to 50 times (first failing run is reported) and may need more than one replay to fail again.",
    )
    .assume("wait-list protocol precondition (from lsmtk KeyValueStore::write and WorkCoalescingQueue::do_work): is_head()/naked_wait are used under one external mutex, and an unlinker either holds that mutex across unlink+notify_head or unlinks, then locks and releases it, then calls notify_head")
    .assume("while one thread holds (almost) the whole ring, the other threads link without holding the external mutex: a link that blocks on a full ring while holding that mutex would dead-lock the protocol by construction, not by a defect of the list")
    .assume("the queue only clones an input after it has been linked (WaitGuard::load); the entry-order oracle uses the first clone as a lower bound witness of 'already linked'")
    .assume("the core returns exactly `taken` outputs and does not panic (the queue's documented contract for cores)")
    .assume("LRU: lookup counts as a use; whether overwriting refreshes recency is undocumented and both are admitted; pop removes the least recently used entry; entry sizes stay below 2^41 so that sums cannot overflow usize")
    .assume("single-threaded wait-list sequences never call link while all 65 536 slots are taken (it blocks by design); that case is exercised by the threaded part")
    .pbt(lru::Lru)
    .pbt(wl::WlSeq)
    .pbt(wl::WlThreads)
    .pbt(wcq::Wcq)
    .pbt(wcq::WcqHandoff);
    vcore::main_with(vec![check], &[("probe-link-wakeup", wl::probe_link_wakeup)]);
}
