//! C18 part 2 — `sync42::wait_list::WaitList`.
//!
//! API facts (wait_list.rs): `MAX_CONCURRENCY = 65 536` slots in a ring addressed by
//! `index % 65 536`; `link` takes the next index and *blocks on a condition variable* while
//! `head + 65 536 <= tail`; `unlink` (or dropping the guard) clears the slot's `linked` flag and
//! advances `head` over every leading unlinked slot under the list mutex; `is_head` is
//! `head == index`; `notify_head` signals the head slot's condition variable; `naked_wait` waits
//! on the guard's slot condition variable with a caller-supplied mutex.
//!
//! Protocol precondition (learned from lsmtk `KeyValueStore::write` and from `do_work`): a waiter
//! tests `is_head()` and calls `naked_wait` while holding one external mutex; whoever unlinks
//! either holds that mutex across `unlink; notify_head` (lsmtk, the queue's followers) or
//! unlinks, then locks and unlocks it, then calls `notify_head` (the queue's leader).  The harness
//! uses exactly these two forms.

use std::collections::VecDeque;
use std::sync::atomic::{AtomicBool, AtomicU64, AtomicUsize, Ordering};
use std::sync::{Arc, Mutex};
use std::time::Duration;

use proptest::prelude::*;
use serde::{Deserialize, Serialize};

use sync42::MAX_CONCURRENCY;
use sync42::wait_list::{WaitGuard, WaitList};
use vcore::gens::sel;
use vcore::{Ctx, Outcome, Property, Tier};

use crate::conc::{self, Delay, Pin, Verdict, Watch};

const RING: u64 = MAX_CONCURRENCY as u64;

//////////////////////////////////////////// sequential ////////////////////////////////////////////

#[derive(Clone, Debug, Serialize, Deserialize)]
pub enum WlOp {
    Link,
    /// unlink the live guard selected among the live ones (any position); `by_drop`: drop the
    /// guard instead of calling `unlink`
    Unlink { which: u16, by_drop: bool },
    UnlinkOldest,
    UnlinkNewest,
    NotifyHead,
    Store { which: u16 },
    /// iterate from a live guard to the tail
    Iter { which: u16 },
    GetWaiter { from: u16, target: u16 },
    /// link `n` more guards at once (used to fill the ring)
    LinkMany { n: u32 },
    /// unlink every live guard except the oldest, newest first
    UnlinkAllButOldest,
}

#[derive(Clone, Debug, Serialize, Deserialize)]
pub struct WlSeqCase {
    /// link+unlink this many times first, so that the live window sits at / crosses the ring's
    /// wrap-around
    pub preroll: u32,
    pub ops: Vec<WlOp>,
}

fn wl_op(big: bool) -> impl Strategy<Value = WlOp> {
    let many = if big {
        prop_oneof![Just(RING as u32), Just(RING as u32 - 1), Just(RING as u32 - 3), 1u32..40].boxed()
    } else {
        (1u32..12).boxed()
    };
    prop_oneof![
        8 => Just(WlOp::Link),
        5 => (any::<u16>(), any::<bool>()).prop_map(|(which, by_drop)| WlOp::Unlink { which, by_drop }),
        3 => Just(WlOp::UnlinkOldest),
        1 => Just(WlOp::UnlinkNewest),
        1 => Just(WlOp::NotifyHead),
        2 => any::<u16>().prop_map(|which| WlOp::Store { which }),
        2 => any::<u16>().prop_map(|which| WlOp::Iter { which }),
        2 => (any::<u16>(), any::<u16>()).prop_map(|(from, target)| WlOp::GetWaiter { from, target }),
        1 => many.prop_map(|n| WlOp::LinkMany { n }),
        1 => Just(WlOp::UnlinkAllButOldest),
    ]
}

pub fn seq_strategy() -> impl Strategy<Value = WlSeqCase> {
    let preroll = prop_oneof![
        30 => Just(0u32),
        1 => (1u32..6).prop_map(|d| RING as u32 - d),
        1 => Just(RING as u32),
        1 => (1u32..6).prop_map(|d| 2 * RING as u32 - d),
    ];
    (preroll, prop_oneof![12 => Just(false), 1 => Just(true)])
        .prop_flat_map(|(preroll, big)| (Just(preroll), prop::collection::vec(wl_op(big), 0..if big { 14 } else { 50 })))
        .prop_map(|(preroll, ops)| WlSeqCase { preroll, ops })
}

pub struct WlSeq;

/// A guard that is leaked instead of unlinked when the thread is unwinding: after a panic inside
/// the wait list its mutex is poisoned, and unlinking from a destructor would panic again and
/// abort the process instead of reporting the first panic.
struct Held<'a>(Option<WaitGuard<'a, u64>>);

impl<'a> Held<'a> {
    fn new(g: WaitGuard<'a, u64>) -> Self {
        Held(Some(g))
    }
    fn take(mut self) -> WaitGuard<'a, u64> {
        self.0.take().unwrap()
    }
}

impl<'a> std::ops::Deref for Held<'a> {
    type Target = WaitGuard<'a, u64>;
    fn deref(&self) -> &Self::Target {
        self.0.as_ref().unwrap()
    }
}

impl<'a> std::ops::DerefMut for Held<'a> {
    fn deref_mut(&mut self) -> &mut Self::Target {
        self.0.as_mut().unwrap()
    }
}

impl Drop for Held<'_> {
    fn drop(&mut self) {
        if let Some(g) = self.0.take() {
            if std::thread::panicking() {
                std::mem::forget(g);
            }
        }
    }
}

struct Live<'a> {
    g: Held<'a>,
    index: u64,
    value: u64,
}

/// After every step: exactly one live guard is head, and it is the oldest one; indices and values
/// are intact.
fn check_all(o: &mut Outcome, live: &mut VecDeque<Live<'_>>, step: &str) -> bool {
    let mut heads = vec![];
    for (i, l) in live.iter_mut().enumerate() {
        if l.g.is_head() {
            heads.push((i, l.index));
        }
    }
    if !live.is_empty() && heads != vec![(0, live[0].index)] {
        let sig = if heads.is_empty() {
            "wl-no-head"
        } else if heads.len() > 1 {
            "wl-two-heads"
        } else {
            "wl-wrong-head"
        };
        o.fail(
            sig,
            format!(
                "{step}: live guards (oldest first) have indices {:?}…; is_head() is true for {:?} (position, index); the oldest live guard must be the one head",
                live.iter().take(8).map(|l| l.index).collect::<Vec<_>>(),
                heads.iter().take(8).collect::<Vec<_>>()
            ),
        );
        return false;
    }
    let n = live.len();
    for (i, l) in live.iter_mut().enumerate() {
        // values of a huge window are sampled; heads above were checked for every guard
        if n > 256 && !(i < 4 || i + 4 >= n || i % 4099 == 0) {
            continue;
        }
        if l.g.index() != l.index {
            o.fail("wl-index-changed", format!("{step}: guard linked at index {} now reports index {}", l.index, l.g.index()));
            return false;
        }
        let v = l.g.load();
        if v != l.value {
            o.fail("wl-value-clobbered", format!("{step}: guard {} holds {v}, expected {}", l.index, l.value));
            return false;
        }
    }
    true
}

impl Property for WlSeq {
    type Case = WlSeqCase;
    fn name(&self) -> String {
        "waitlist-sequential".into()
    }
    fn cases(&self, tier: Tier) -> u64 {
        tier.pick(800, 12_000)
    }
    fn strategy(&self, _: &Ctx) -> BoxedStrategy<WlSeqCase> {
        seq_strategy().boxed()
    }
    fn record_current(&self) -> bool {
        true // a second panic while unwinding through sync42's own guards aborts the process
    }
    fn run(&self, _: &Ctx, c: &WlSeqCase) -> Outcome {
        let mut o = Outcome::pass();
        let wl: WaitList<u64> = WaitList::new();
        for _ in 0..c.preroll {
            drop(wl.link(0));
        }
        let mut tail: u64 = c.preroll as u64;
        let mut live: VecDeque<Live<'_>> = VecDeque::new();
        let mut next_value = 1000u64;
        let mut max_live = 0usize;
        let mut out_of_order_with_3 = false;
        let mut head_skipped = false;
        let mut full_ring = false;
        let mut link_skipped = false;
        // oldest index that is still inside the window [head, tail)
        macro_rules! head_index {
            () => {
                live.front().map(|l| l.index).unwrap_or(tail)
            };
        }
        macro_rules! link_one {
            () => {{
                if tail - head_index!() >= RING {
                    // every slot is taken: link() would block forever in a single thread
                    link_skipped = true;
                    false
                } else {
                    let mut g = wl.link(next_value);
                    let index = g.index();
                    if index != tail {
                        o.fail("wl-index-not-consecutive", format!("link returned index {index}, expected the tail {tail}"));
                        return o;
                    }
                    live.push_back(Live { g: Held::new(g), index, value: next_value });
                    next_value += 1;
                    tail += 1;
                    if tail - head_index!() == RING {
                        full_ring = true;
                    }
                    true
                }
            }};
        }
        macro_rules! unlink_at {
            ($p:expr, $by_drop:expr) => {{
                let p: usize = $p;
                if p > 0 && live.len() >= 3 {
                    out_of_order_with_3 = true;
                }
                if p == 0 && live.len() >= 2 && live[1].index != live[0].index + 1 {
                    head_skipped = true;
                }
                let l = live.remove(p).unwrap();
                let g = l.g.take();
                if $by_drop {
                    drop(g);
                } else {
                    wl.unlink(g);
                }
            }};
        }
        for (i, op) in c.ops.iter().enumerate() {
            let step = format!("after op #{i} {op:?}");
            match *op {
                WlOp::Link => {
                    link_one!();
                }
                WlOp::LinkMany { n } => {
                    for _ in 0..n {
                        if !link_one!() {
                            break;
                        }
                    }
                }
                WlOp::Unlink { which, by_drop } => {
                    if !live.is_empty() {
                        unlink_at!(sel(which, live.len()), by_drop);
                    }
                }
                WlOp::UnlinkOldest => {
                    if !live.is_empty() {
                        unlink_at!(0, false);
                    }
                }
                WlOp::UnlinkNewest => {
                    if !live.is_empty() {
                        unlink_at!(live.len() - 1, true);
                    }
                }
                WlOp::UnlinkAllButOldest => {
                    while live.len() > 1 {
                        unlink_at!(live.len() - 1, false);
                    }
                }
                WlOp::NotifyHead => wl.notify_head(),
                WlOp::Store { which } => {
                    if !live.is_empty() {
                        let p = sel(which, live.len());
                        live[p].value = 5_000_000 + i as u64;
                        let v = live[p].value;
                        live[p].g.store(v);
                    }
                }
                WlOp::Iter { which } => {
                    if !live.is_empty() {
                        let p = sel(which, live.len());
                        let from = live[p].index;
                        let mut got = vec![];
                        let mut bad = None;
                        {
                            let mut j = p;
                            for mut w in live[p].g.iter() {
                                let idx = w.index();
                                got.push(idx);
                                while j < live.len() && live[j].index < idx {
                                    j += 1;
                                }
                                if j < live.len() && live[j].index == idx {
                                    let v = w.load();
                                    if v != live[j].value && bad.is_none() {
                                        bad = Some((idx, v, live[j].value));
                                    }
                                }
                            }
                        }
                        let ok = got.len() as u64 == tail - from && got.iter().enumerate().all(|(k, x)| *x == from + k as u64);
                        if !ok {
                            o.fail(
                                "wl-iter-range",
                                format!("{step}: iterating from index {from} with tail {tail} yielded {} guards starting {:?}", got.len(), got.iter().take(6).collect::<Vec<_>>()),
                            );
                            return o;
                        }
                        if let Some((idx, v, want)) = bad {
                            o.fail("wl-value-clobbered", format!("{step}: iterator guard {idx} loads {v}, expected {want}"));
                            return o;
                        }
                    }
                }
                WlOp::GetWaiter { from, target } => {
                    if !live.is_empty() {
                        let p = sel(from, live.len());
                        let lo = live[p].index.saturating_sub(2);
                        let target = lo + sel(target, (tail + 2 - lo).min(64) as usize) as u64;
                        let own = live[p].index;
                        let head = live[0].index;
                        let want = live.iter().find(|l| l.index == target).map(|l| l.value).filter(|_| target >= own);
                        let got = match live[p].g.get_waiter(target) {
                            Some(mut w) => Some((w.load(), w.is_head())),
                            None => None,
                        };
                        let want = want.map(|v| (v, target == head));
                        if got != want {
                            o.fail(
                                "wl-get-waiter",
                                format!("{step}: get_waiter({target}) from guard {own} (head {head}, tail {tail}) gave (value,is_head) {got:?}, expected {want:?}"),
                            );
                            return o;
                        }
                    }
                }
            }
            max_live = max_live.max(live.len());
            if !check_all(&mut o, &mut live, &step) {
                return o;
            }
        }
        // Unlink everything oldest-first, checking the hand-off at every step (bounded for huge windows).
        let mut steps = 0;
        while !live.is_empty() {
            unlink_at!(0, steps % 2 == 0);
            steps += 1;
            if steps <= 64 || live.len() <= 64 {
                if !check_all(&mut o, &mut live, &format!("final drain step {steps}")) {
                    return o;
                }
            } else if !live[0].g.is_head() {
                o.fail("wl-no-head", format!("final drain step {steps}: the oldest live guard {} is not head", live[0].index));
                return o;
            }
        }
        // An empty list hands the head to whoever links next.
        let mut g = wl.link(7);
        if !g.is_head() || g.index() != tail {
            o.fail("wl-no-head", format!("after everything was unlinked a new guard (index {}, expected {tail}) is not head", g.index()));
        }
        drop(g);
        o.nontrivial = out_of_order_with_3;
        o.label(format!("max-live:{}", conc::bucket(max_live as u64)));
        if out_of_order_with_3 {
            o.label("out-of-order-unlink-with>=3-live");
        }
        if head_skipped {
            o.label("head-advanced-over-unlinked-slots");
        }
        if full_ring {
            o.label("ring-exactly-full");
        }
        if link_skipped {
            o.label("link-skipped-because-ring-full");
        }
        if c.preroll > 0 {
            o.label("window-at-ring-wraparound");
        }
        o
    }
}

///////////////////////////////////////////// threaded /////////////////////////////////////////////

#[derive(Clone, Copy, Debug, PartialEq, Eq, Serialize, Deserialize)]
pub enum Mode {
    /// wait until head; `unlink; notify_head` while holding the external mutex (lsmtk `write`)
    PassLocked,
    /// wait until head; release the mutex; `unlink`; lock+unlock the mutex; `notify_head` (the
    /// coalescing queue's leader)
    PassLeader,
    /// do not wait: `unlink; notify_head` under the mutex wherever the guard stands (the
    /// coalescing queue's followers that already hold an output)
    Abandon,
}

#[derive(Clone, Debug, Serialize, Deserialize)]
pub struct WlRound {
    pub pre: Delay,
    /// take the external mutex around `link` (lsmtk does, the coalescing queue does not)
    pub link_locked: bool,
    pub work: Delay,
    pub mode: Mode,
    pub by_drop: bool,
}

/// One thread that takes almost every slot of the ring before the others start.
#[derive(Clone, Debug, Serialize, Deserialize)]
pub struct Hog {
    /// slots left free (0 = the ring is exactly full: every other `link` must block)
    pub free: u8,
    pub hold: Delay,
    pub release: Release,
}

#[derive(Clone, Copy, Debug, PartialEq, Eq, Serialize, Deserialize)]
pub enum Release {
    /// oldest first: the head advances one slot per unlink
    InOrder,
    /// newest first: the head jumps over all 65 536 slots at the very last unlink
    Reverse,
    /// even indices, then odd ones
    EvenOdd,
}

#[derive(Clone, Debug, Serialize, Deserialize)]
pub struct WlThreadsCase {
    pub preroll: u32,
    pub threads: Vec<Vec<WlRound>>,
    pub hog: Option<Hog>,
    pub pin: Pin,
}

fn round() -> impl Strategy<Value = WlRound> {
    (
        conc::delay(),
        any::<bool>(),
        conc::delay(),
        prop_oneof![4 => Just(Mode::PassLocked), 3 => Just(Mode::PassLeader), 2 => Just(Mode::Abandon)],
        any::<bool>(),
    )
        .prop_map(|(pre, link_locked, work, mode, by_drop)| WlRound { pre, link_locked, work, mode, by_drop })
}

pub fn threads_strategy() -> impl Strategy<Value = WlThreadsCase> {
    let preroll = prop_oneof![12 => Just(0u32), 1 => (1u32..40).prop_map(|d| RING as u32 - d)];
    let hog = prop_oneof![
        9 => Just(None),
        1 => (0u8..4, conc::delay(), prop_oneof![Just(Release::InOrder), Just(Release::Reverse), Just(Release::EvenOdd)])
            .prop_map(|(free, hold, release)| Some(Hog { free, hold, release })),
    ];
    (preroll, prop::collection::vec(prop::collection::vec(round(), 1..25), 2..10), hog, conc::pin())
        .prop_map(|(preroll, threads, hog, pin)| WlThreadsCase { preroll, threads, hog, pin })
}

struct WlShared {
    wl: WaitList<u64>,
    /// the external mutex; protects the order in which waiters passed
    ext: Mutex<Vec<u64>>,
    watch: Watch,
    parks: AtomicU64,
    linked_now: AtomicUsize,
    max_linked: AtomicUsize,
    /// hog: smallest hog index whose unlink has not started yet (u64::MAX once all have)
    hog_min_unstarted: AtomicU64,
    hog_ready: AtomicBool,
    errs: Mutex<Vec<(String, String)>>,
}

impl WlShared {
    fn err(&self, sig: &str, msg: String) {
        self.errs.lock().unwrap().push((sig.to_string(), msg));
    }
}

fn wl_worker(sh: &WlShared, t: usize, rounds: &[WlRound], hog_present: bool, base: u64) -> Vec<u64> {
    let mut mine = vec![];
    for r in rounds.iter() {
        sh.watch.pause(r.pre);
        let mut g = Held::new(if r.link_locked && !hog_present {
            let _e = sh.ext.lock().unwrap();
            sh.wl.link(t as u64)
        } else {
            sh.wl.link(t as u64)
        });
        let idx = g.index();
        let n = sh.linked_now.fetch_add(1, Ordering::SeqCst) + 1;
        sh.max_linked.fetch_max(n, Ordering::SeqCst);
        if hog_present && idx >= base + RING {
            // The slot we were given is the one index idx-RING used; that guard's unlink must
            // have begun before our link could return.
            let m = sh.hog_min_unstarted.load(Ordering::SeqCst);
            if idx - RING >= m {
                sh.err(
                    "wl-slot-reused-while-linked",
                    format!("thread {t} was given index {idx} (slot of index {}) while the guard at index {m} had not begun to unlink", idx - RING),
                );
            }
        }
        mine.push(idx);
        sh.watch.pause(r.work);
        let unlink = |g: Held<'_>| {
            sh.linked_now.fetch_sub(1, Ordering::SeqCst);
            let g = g.take();
            if r.by_drop {
                drop(g)
            } else {
                sh.wl.unlink(g)
            }
        };
        match r.mode {
            Mode::PassLocked | Mode::PassLeader => {
                let mut e = sh.ext.lock().unwrap();
                while !g.is_head() {
                    sh.parks.fetch_add(1, Ordering::Relaxed);
                    e = g.naked_wait(e);
                }
                e.push(idx);
                if r.mode == Mode::PassLocked {
                    unlink(g);
                    sh.wl.notify_head();
                    drop(e);
                } else {
                    drop(e);
                    unlink(g);
                    drop(sh.ext.lock().unwrap());
                    sh.wl.notify_head();
                }
            }
            Mode::Abandon => {
                let e = sh.ext.lock().unwrap();
                unlink(g);
                sh.wl.notify_head();
                drop(e);
            }
        }
        sh.watch.tick();
    }
    mine
}

fn hog_worker(sh: &WlShared, hog: &Hog, base: u64) -> Vec<u64> {
    let n = RING - hog.free as u64;
    let mut guards: Vec<Option<Held<'_>>> = Vec::with_capacity(n as usize);
    for i in 0..n {
        let mut g = sh.wl.link(1_000_000 + i);
        if g.index() != base + i {
            sh.err("wl-index-not-consecutive", format!("hog link #{i} returned index {}", g.index()));
        }
        guards.push(Some(Held::new(g)));
    }
    sh.hog_min_unstarted.store(base, Ordering::SeqCst);
    if !guards[0].as_mut().unwrap().is_head() {
        sh.err("wl-no-head", "the hog's first guard is not head".into());
    }
    sh.hog_ready.store(true, Ordering::SeqCst);
    sh.watch.pause(hog.hold);
    sh.watch.pause(Delay::SleepUs(300));
    let order: Vec<u64> = match hog.release {
        Release::InOrder => (0..n).collect(),
        Release::Reverse => (0..n).rev().collect(),
        Release::EvenOdd => (0..n).step_by(2).chain((1..n).step_by(2)).collect(),
    };
    let mut started = vec![false; n as usize];
    let mut min_unstarted = 0u64;
    for (k, i) in order.iter().enumerate() {
        let mut g = guards[*i as usize].take().unwrap();
        if k % 997 == 0 || *i < 4 || *i + 4 >= n {
            let v = g.load();
            if v != 1_000_000 + *i {
                sh.err("wl-value-clobbered", format!("hog guard {} holds {v} instead of {}", base + *i, 1_000_000 + *i));
            }
            let h = g.is_head();
            if h != (*i == min_unstarted) {
                sh.err("wl-wrong-head", format!("hog guard {} is_head()={h} but the oldest linked hog guard is {}", base + *i, base + min_unstarted));
            }
        }
        started[*i as usize] = true;
        while (min_unstarted as usize) < started.len() && started[min_unstarted as usize] {
            min_unstarted += 1;
        }
        sh.hog_min_unstarted.store(if min_unstarted == n { u64::MAX } else { base + min_unstarted }, Ordering::SeqCst);
        // unlink + notify under the external mutex, like every other participant
        let e = sh.ext.lock().unwrap();
        sh.wl.unlink(g.take());
        sh.wl.notify_head();
        drop(e);
        if k % 4096 == 0 {
            sh.watch.tick();
        }
    }
    (base..base + n).collect()
}

pub struct WlThreads;

fn run_wl_threads(ctx: &Ctx, c: &WlThreadsCase) -> Outcome {
    let mut o = Outcome::pass();
    let nt = c.threads.len();
    let nworkers = nt + c.hog.is_some() as usize;
    let before = conc::counters();
    let sh = Arc::new(WlShared {
        wl: WaitList::new(),
        ext: Mutex::new(vec![]),
        watch: Watch::new(nworkers),
        parks: AtomicU64::new(0),
        linked_now: AtomicUsize::new(0),
        max_linked: AtomicUsize::new(0),
        hog_min_unstarted: AtomicU64::new(0),
        hog_ready: AtomicBool::new(c.hog.is_none()),
        errs: Mutex::new(vec![]),
    });
    for _ in 0..c.preroll {
        drop(sh.wl.link(0));
    }
    let base = c.preroll as u64;
    let mut hs = vec![];
    for t in 0..nworkers {
        let sh = Arc::clone(&sh);
        let c = c.clone();
        let worker = ctx.worker;
        let h = std::thread::Builder::new()
            .stack_size(256 << 10)
            .spawn(move || {
                let _entered = sh.watch.enter(t);
                conc::apply_pin(c.pin, worker, t);
                std::panic::catch_unwind(std::panic::AssertUnwindSafe(|| {
                    sh.watch.rendezvous();
                    if t == nt {
                        hog_worker(&sh, c.hog.as_ref().unwrap(), base)
                    } else {
                        while !sh.hog_ready.load(Ordering::SeqCst) {
                            std::thread::yield_now();
                        }
                        wl_worker(&sh, t, &c.threads[t], c.hog.is_some(), base)
                    }
                }))
                .map_err(|p| conc::panic_text(&*p))
            })
            .expect("spawn");
        hs.push(h);
    }
    let verdict = conc::supervise(&sh.watch, Duration::from_secs(30));
    let results = conc::join_finished(hs, matches!(verdict, Verdict::Done));
    let mut indices: Vec<Vec<u64>> = vec![];
    let mut panics: Vec<(usize, String)> = vec![];
    for (t, r) in results.into_iter().enumerate() {
        match r {
            Some(Ok(Ok(v))) => indices.push(v),
            Some(Ok(Err(msg))) => {
                panics.push((t, msg));
                indices.push(vec![]);
            }
            Some(Err(_)) => {
                panics.push((t, "thread died outside catch_unwind".into()));
                indices.push(vec![]);
            }
            None => indices.push(vec![]),
        }
    }
    if let Some((t, msg)) = conc::root_panic(&panics) {
        o.nontrivial = true;
        o.fail(conc::panic_sig("wl", msg), format!("thread {t} panicked: {msg} ({} threads panicked in all)", panics.len()));
        return o;
    }
    match verdict {
        Verdict::Done => {}
        Verdict::Deadlock(d) => {
            o.nontrivial = true;
            o.fail("wl-stall-all-parked", format!("lost wake-up: {d}; passed so far: {} waiters", sh.ext.try_lock().map(|e| e.len()).unwrap_or(0)));
            return o;
        }
        Verdict::Timeout(d) => {
            o.inconclusive = true;
            o.label(format!("watchdog: {d}"));
            return o;
        }
    }
    if let Some((sig, msg)) = sh.errs.lock().unwrap().first().cloned() {
        o.fail(sig, msg);
        return o;
    }
    // every link got its own consecutive index, in program order per thread
    let mut all: Vec<u64> = vec![];
    for (t, v) in indices.iter().enumerate() {
        if v.windows(2).any(|w| w[0] >= w[1]) {
            o.fail("wl-index-not-consecutive", format!("thread {t} linked at indices that do not increase: {:?}", v.iter().take(20).collect::<Vec<_>>()));
            return o;
        }
        all.extend_from_slice(v);
    }
    all.sort();
    let total = all.len() as u64;
    if all.iter().enumerate().any(|(i, x)| *x != base + i as u64) {
        o.fail("wl-index-not-unique", format!("the {total} links did not receive the indices {base}..{} exactly once each", base + total));
        return o;
    }
    // waiters passed the head position in link order
    let passed = sh.ext.lock().unwrap().clone();
    if let Some(w) = passed.windows(2).find(|w| w[0] >= w[1]) {
        o.fail("wl-pass-order", format!("waiter {} passed as head before waiter {} although it linked later (pass order …{:?}…)", w[0], w[1], w));
        return o;
    }
    let expect_pass: usize = c.threads.iter().flatten().filter(|r| r.mode != Mode::Abandon).count();
    if passed.len() != expect_pass {
        o.fail("wl-pass-count", format!("{} waiters passed, expected {expect_pass}", passed.len()));
        return o;
    }
    let after = conc::counters();
    let parks = sh.parks.load(Ordering::SeqCst);
    let max_linked = sh.max_linked.load(Ordering::SeqCst);
    o.nontrivial = parks >= 1 && max_linked >= 3;
    o.label(format!("threads:{}", conc::bucket(nt as u64)));
    o.label(format!("parked-waits:{}", conc::bucket(parks)));
    if c.hog.is_some() {
        o.label("hog-holds-the-ring");
        o.label(format!("links-blocked-on-full-ring:{}", conc::bucket(conc::delta(&before, &after, "sync42.wait_list.waiting_for_waiters"))));
    }
    if c.preroll > 0 {
        o.label("window-at-ring-wraparound");
    }
    if c.threads.iter().flatten().any(|r| r.mode == Mode::Abandon) {
        o.label("with-out-of-order-unlinks");
    }
    o
}

impl Property for WlThreads {
    type Case = WlThreadsCase;
    fn name(&self) -> String {
        "waitlist-threads".into()
    }
    fn cases(&self, tier: Tier) -> u64 {
        tier.pick(300, 4_000)
    }
    fn strategy(&self, _: &Ctx) -> BoxedStrategy<WlThreadsCase> {
        threads_strategy().boxed()
    }
    fn max_shrink_iters(&self) -> u32 {
        48
    }
    fn record_current(&self) -> bool {
        true
    }
    fn run(&self, ctx: &Ctx, c: &WlThreadsCase) -> Outcome {
        crate::repeat_if_replay(ctx, || run_wl_threads(ctx, c))
    }
}

/// `c18 probe-link-wakeup`: demonstrates how `link` behaves when two callers wait for a slot and one
/// unlink frees two slots at once (the list wakes one of them; the other sleeps until the next
/// unlink).  Informational; not part of the check's verdict.
pub fn probe_link_wakeup(_: &[String]) -> i32 {
    let wl: Arc<WaitList<u64>> = Arc::new(WaitList::new());
    let linked = Arc::new(AtomicUsize::new(0));
    let mut guards: Vec<Option<WaitGuard<'_, u64>>> = (0..RING).map(|i| Some(wl.link(i))).collect();
    let mut hs = vec![];
    for _ in 0..2 {
        let wl2 = Arc::clone(&wl);
        let linked = Arc::clone(&linked);
        hs.push(std::thread::spawn(move || {
            let g = wl2.link(99);
            linked.fetch_add(1, Ordering::SeqCst);
            // keep the guard until the main thread has looked
            std::thread::sleep(Duration::from_millis(1500));
            drop(g);
        }));
    }
    std::thread::sleep(Duration::from_millis(300));
    println!("ring full, two threads inside link(): linked so far = {}", linked.load(Ordering::SeqCst));
    drop(guards[1].take()); // not the head: frees nothing yet
    std::thread::sleep(Duration::from_millis(100));
    println!("after unlinking index 1 (not head): linked = {}", linked.load(Ordering::SeqCst));
    drop(guards[0].take()); // head leaves: head jumps to 2, two slots are free
    std::thread::sleep(Duration::from_millis(500));
    let n = linked.load(Ordering::SeqCst);
    println!("after unlinking index 0 (head moves by 2, two slots free): linked = {n} of 2 waiting callers, 500 ms later");
    drop(guards[2].take());
    std::thread::sleep(Duration::from_millis(300));
    println!("after one more unlink: linked = {}", linked.load(Ordering::SeqCst));
    for h in hs {
        let _ = h.join();
    }
    guards.clear();
    0
}
