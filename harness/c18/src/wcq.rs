//! C18 part 3 — `sync42::work_coalescing_queue::WorkCoalescingQueue` under real threads.
//!
//! The core is the harness's.  It records every `batch` / `work` call, decides `can_batch` by a
//! generated policy and delays inside `work` by a generated pattern.
//!
//! Entry order.  `do_work` links the input into the wait list first; the queue promises to process
//! inputs in that (link) order.  The link itself cannot be observed from outside, but it can be
//! bracketed soundly: every call takes a stamp from one global counter *before* `do_work`
//! (`start`, precedes the link), and the input type's `Clone` — which the queue only ever invokes on
//! values already stored in the wait list (`WaitGuard::load`) — records the stamp of its first
//! clone (`seen`, follows the link).  If `seen(x) < start(y)` then x was linked before y, hence
//! the core must have been handed x before y.  Together with "own output" and "exactly once" this
//! also implies per-thread program order and real-time order.

use std::sync::atomic::{AtomicU64, AtomicUsize, Ordering};
use std::sync::{Arc, Mutex};
use std::time::Duration;

use proptest::prelude::*;
use serde::{Deserialize, Serialize};

use sync42::work_coalescing_queue::{WorkCoalescingCore, WorkCoalescingQueue};
use vcore::{Ctx, Outcome, Property, Tier};

use crate::conc::{self, Delay, Pin, Verdict, Watch};

#[derive(Clone, Copy, Debug, PartialEq, Eq, Serialize, Deserialize)]
pub enum Policy {
    /// `can_batch` always true
    Always,
    /// `can_batch` always false: the queue must still take one input per batch
    Never,
    /// at most n inputs per batch
    UpTo(u8),
    /// refuses every input whose id is a multiple of k (a decision that depends on the input)
    RefuseMultiplesOf(u8),
}

#[derive(Clone, Debug, Serialize, Deserialize)]
pub struct WcqThread {
    pub calls: u16,
    pub before: Vec<Delay>,
}

#[derive(Clone, Debug, Serialize, Deserialize)]
pub struct WcqCase {
    pub threads: Vec<WcqThread>,
    pub policy: Policy,
    pub in_work: Vec<Delay>,
    pub pin: Pin,
}

pub fn strategy(tier: Tier) -> impl Strategy<Value = WcqCase> {
    let policy = prop_oneof![
        4 => Just(Policy::Always),
        2 => Just(Policy::Never),
        4 => (1u8..9).prop_map(Policy::UpTo),
        2 => (2u8..6).prop_map(Policy::RefuseMultiplesOf),
    ];
    let max_calls = tier.pick(120u16, 201u16);
    let thread = (20u16..max_calls, conc::delays()).prop_map(|(calls, before)| WcqThread { calls, before });
    (prop::collection::vec(thread, 2..17), policy, conc::delays(), conc::pin()).prop_map(|(threads, policy, in_work, pin)| WcqCase {
        threads,
        policy,
        in_work,
        pin,
    })
}

fn f(id: u32) -> u64 {
    vcore::mix(id as u64 ^ 0xC18)
}

struct Shared {
    clock: AtomicU64,
    /// stamp of the first clone of input `id` (0 = never cloned)
    seen: Vec<AtomicU64>,
    watch: Watch,
}

struct Inp {
    id: u32,
    sh: Arc<Shared>,
}

impl Clone for Inp {
    fn clone(&self) -> Self {
        let s = &self.sh.seen[self.id as usize];
        if s.load(Ordering::SeqCst) == 0 {
            let t = self.sh.clock.fetch_add(1, Ordering::SeqCst) + 1;
            let _ = s.compare_exchange(0, t, Ordering::SeqCst, Ordering::SeqCst);
        }
        Inp { id: self.id, sh: Arc::clone(&self.sh) }
    }
}

struct Batch {
    ids: Vec<u32>,
    taken: usize,
    work_start: u64,
}

struct Core {
    sh: Arc<Shared>,
    policy: Policy,
    in_work: Vec<Delay>,
    batches: Vec<Batch>,
    /// last `can_batch` question: (id << 1 | answer) + 1
    last_can: AtomicU64,
    errs: Mutex<Vec<(String, String)>>,
}

impl WorkCoalescingCore<Inp, u64> for Core {
    type InputAccumulator = Vec<u32>;
    type OutputIterator<'a> = std::vec::IntoIter<u64>;

    fn can_batch(&self, acc: &Vec<u32>, other: &Inp) -> bool {
        let yes = match self.policy {
            Policy::Always => true,
            Policy::Never => false,
            Policy::UpTo(n) => acc.len() < n as usize,
            Policy::RefuseMultiplesOf(k) => other.id % k as u32 != 0,
        };
        self.last_can.store((((other.id as u64) << 1) | yes as u64) + 1, Ordering::SeqCst);
        yes
    }

    fn batch(&mut self, mut acc: Vec<u32>, other: Inp) -> Vec<u32> {
        if !acc.is_empty() {
            // documented: only called when can_batch returned true (except for the first input)
            let want = (((other.id as u64) << 1) | 1) + 1;
            if self.last_can.load(Ordering::SeqCst) != want {
                self.errs.lock().unwrap().push((
                    "wcq-batch-without-consent".into(),
                    format!("batch() was called for input {} (accumulator {:?}) without can_batch having accepted it", other.id, acc),
                ));
            }
        }
        acc.push(other.id);
        acc
    }

    fn work(&mut self, taken: usize, acc: Vec<u32>) -> Self::OutputIterator<'_> {
        let work_start = self.sh.clock.fetch_add(1, Ordering::SeqCst) + 1;
        let d = conc::at(&self.in_work, self.batches.len());
        self.sh.watch.pause(d);
        let out: Vec<u64> = acc.iter().map(|id| f(*id)).collect();
        self.batches.push(Batch { ids: acc, taken, work_start });
        out.into_iter()
    }
}

#[derive(Clone, Copy)]
struct Call {
    id: u32,
    start: u64,
    out: u64,
}

pub struct Wcq;

fn run_wcq(ctx: &Ctx, c: &WcqCase) -> Outcome {
    let mut o = Outcome::pass();
    let nt = c.threads.len();
    let mut first_id = vec![0u32; nt + 1];
    for t in 0..nt {
        first_id[t + 1] = first_id[t] + c.threads[t].calls as u32;
    }
    let total = first_id[nt] as usize;
    let sh = Arc::new(Shared {
        clock: AtomicU64::new(0),
        seen: (0..total).map(|_| AtomicU64::new(0)).collect(),
        watch: Watch::new(nt),
    });
    let before = conc::counters();
    let q = Arc::new(WorkCoalescingQueue::new(Core {
        sh: Arc::clone(&sh),
        policy: c.policy,
        in_work: c.in_work.clone(),
        batches: vec![],
        last_can: AtomicU64::new(0),
        errs: Mutex::new(vec![]),
    }));
    let returned = Arc::new(AtomicUsize::new(0));
    let mut hs = vec![];
    for t in 0..nt {
        let sh = Arc::clone(&sh);
        let q = Arc::clone(&q);
        let th = c.threads[t].clone();
        let pin = c.pin;
        let worker = ctx.worker;
        let base = first_id[t];
        let returned = Arc::clone(&returned);
        let h = std::thread::Builder::new()
            .stack_size(256 << 10)
            .spawn(move || {
                let _entered = sh.watch.enter(t);
                conc::apply_pin(pin, worker, t);
                std::panic::catch_unwind(std::panic::AssertUnwindSafe(|| {
                    sh.watch.rendezvous();
                    let mut calls = Vec::with_capacity(th.calls as usize);
                    for i in 0..th.calls as usize {
                        sh.watch.pause(conc::at(&th.before, i));
                        let id = base + i as u32;
                        let start = sh.clock.fetch_add(1, Ordering::SeqCst) + 1;
                        let out = q.do_work(Inp { id, sh: Arc::clone(&sh) });
                        calls.push(Call { id, start, out });
                        returned.fetch_add(1, Ordering::SeqCst);
                        sh.watch.tick();
                    }
                    calls
                }))
                .map_err(|p| conc::panic_text(&*p))
            })
            .expect("spawn");
        hs.push(h);
    }
    let verdict = conc::supervise(&sh.watch, Duration::from_secs(30));
    let results = conc::join_finished(hs, matches!(verdict, Verdict::Done));
    let mut calls: Vec<Call> = vec![];
    let mut panics: Vec<(usize, String)> = vec![];
    for (t, r) in results.into_iter().enumerate() {
        match r {
            Some(Ok(Ok(v))) => calls.extend(v),
            Some(Ok(Err(msg))) => panics.push((t, msg)),
            Some(Err(_)) => panics.push((t, "thread died outside catch_unwind".into())),
            None => {}
        }
    }
    if let Some((t, msg)) = conc::root_panic(&panics) {
        o.nontrivial = true;
        o.fail(conc::panic_sig("wcq", msg), format!("thread {t} panicked inside do_work: {msg} ({} threads panicked in all)", panics.len()));
        return o;
    }
    match verdict {
        Verdict::Done => {}
        Verdict::Deadlock(d) => {
            o.nontrivial = true;
            o.fail(
                "wcq-stall-all-parked",
                format!("calls block forever: {d}; {} of {total} calls had returned", returned.load(Ordering::SeqCst)),
            );
            return o;
        }
        Verdict::Timeout(d) => {
            o.inconclusive = true;
            o.label(format!("watchdog: {d}"));
            return o;
        }
    }
    let core = match Arc::try_unwrap(q) {
        Ok(q) => q.into_inner(),
        Err(_) => {
            o.inconclusive = true;
            o.label("harness: queue still shared after all threads finished");
            return o;
        }
    };
    if let Some((sig, msg)) = core.errs.lock().unwrap().first().cloned() {
        o.fail(sig, msg);
        return o;
    }
    // 1. every caller got the output of its own input
    for call in calls.iter() {
        if call.out != f(call.id) {
            let whose = (0..total as u32).find(|x| f(*x) == call.out);
            o.fail(
                "wcq-wrong-output",
                format!("the call with input {} returned {:#x}, which is {} instead of its own output {:#x}", call.id, call.out, match whose {
                    Some(x) => format!("the output of input {x}"),
                    None => "nobody's output".into(),
                }, f(call.id)),
            );
            return o;
        }
    }
    if calls.len() != total {
        o.fail("wcq-call-missing", format!("{} calls returned, {total} were made", calls.len()));
        return o;
    }
    // 2. the core saw every input exactly once
    let mut pos: Vec<Option<(usize, usize)>> = vec![None; total];
    let mut p = 0usize;
    for (b, batch) in core.batches.iter().enumerate() {
        if batch.taken != batch.ids.len() || batch.ids.is_empty() {
            o.fail("wcq-taken-mismatch", format!("work() #{b} was told taken={} for an accumulator of {} inputs", batch.taken, batch.ids.len()));
            return o;
        }
        for id in batch.ids.iter() {
            if let Some((_, b0)) = pos[*id as usize] {
                o.fail("wcq-input-duplicated", format!("the core was handed input {id} twice (batches #{b0} and #{b})"));
                return o;
            }
            pos[*id as usize] = Some((p, b));
            p += 1;
        }
    }
    if let Some(id) = pos.iter().position(|x| x.is_none()) {
        o.fail("wcq-input-missing", format!("the core never saw input {id} although its call returned"));
        return o;
    }
    // 3. batching respects the policy (can_batch may only be overridden for a batch's first input)
    for (b, batch) in core.batches.iter().enumerate() {
        let n = batch.ids.len();
        let bad = match c.policy {
            Policy::Always => false,
            Policy::Never => n > 1,
            Policy::UpTo(k) => n > (k as usize).max(1),
            Policy::RefuseMultiplesOf(k) => batch.ids.iter().skip(1).any(|id| id % k as u32 == 0),
        };
        if bad {
            // can_batch is documented as a hint that the queue may override: counted, not a verdict
            let _ = b;
            o.label("can_batch-hint-overridden(not-asserted)");
        }
    }
    // 4. entry order: seen(x) < start(y)  ⇒  x is handed to the core before y
    let mut by_pos: Vec<&Call> = calls.iter().collect();
    by_pos.sort_by_key(|c| pos[c.id as usize].unwrap().0);
    let mut latest_start: Option<&Call> = None; // among the calls earlier in the core's order
    for x in by_pos.iter() {
        let seen = sh.seen[x.id as usize].load(Ordering::SeqCst);
        if let Some(y) = latest_start {
            if seen != 0 && seen < y.start {
                let (px, bx) = pos[x.id as usize].unwrap();
                let (py, by) = pos[y.id as usize].unwrap();
                o.fail(
                    "wcq-order",
                    format!(
                        "input {} was already in the queue (first loaded at stamp {seen}) before the call with input {} even started (stamp {}), yet the core received {} first (position {py}, batch #{by}) and {} later (position {px}, batch #{bx})",
                        x.id, y.id, y.start, y.id, x.id
                    ),
                );
                return o;
            }
        }
        if latest_start.map(|y| x.start > y.start).unwrap_or(true) {
            latest_start = Some(x);
        }
    }
    // per-thread program order (implied, cheap to state)
    for t in 0..nt {
        let ids = first_id[t]..first_id[t + 1];
        if ids.clone().zip(ids.skip(1)).any(|(a, b)| pos[a as usize].unwrap().0 >= pos[b as usize].unwrap().0) {
            o.fail("wcq-order", format!("thread {t}'s consecutive calls reached the core out of program order"));
            return o;
        }
    }
    // measurements
    let multi = core.batches.iter().filter(|b| b.ids.len() >= 2).count() as u64;
    o.nontrivial = multi >= 1;
    // inputs that were provably waiting in the queue when a later-processed call started
    let mut constrained = 0u64;
    {
        let mut starts: Vec<u64> = calls.iter().map(|c| c.start).collect();
        starts.sort();
        for x in calls.iter() {
            let seen = sh.seen[x.id as usize].load(Ordering::SeqCst);
            let ws = core.batches[pos[x.id as usize].unwrap().1].work_start;
            if seen != 0 {
                // some call started strictly between seen(x) and the start of x's batch
                let i = starts.partition_point(|s| *s <= seen);
                if i < starts.len() && starts[i] < ws {
                    constrained += 1;
                }
            }
        }
    }
    let after = conc::counters();
    o.label(format!("policy:{}", match c.policy {
        Policy::Always => "always",
        Policy::Never => "never",
        Policy::UpTo(_) => "up-to-n",
        Policy::RefuseMultiplesOf(_) => "refuse-by-input",
    }));
    o.label(format!("threads:{}", conc::bucket(nt as u64)));
    o.label(format!("multi-input-batches:{}", conc::bucket(multi)));
    o.label(format!("max-batch:{}", conc::bucket(core.batches.iter().map(|b| b.ids.len()).max().unwrap_or(0) as u64)));
    o.label(format!("order-constrained-inputs:{}", conc::bucket(constrained)));
    o.label(format!("followers-woken-with-output:{}", conc::bucket(conc::delta(&before, &after, "sync42.work_coalescing_queue.saw_output"))));
    o.label(format!("waits-while-stolen:{}", conc::bucket(conc::delta(&before, &after, "sync42.work_coalescing_queue.await_stolen"))));
    if c.pin != Pin::Free {
        o.label("pinned");
    }
    o
}

impl Property for Wcq {
    type Case = WcqCase;
    fn name(&self) -> String {
        "coalescing-queue-threads".into()
    }
    fn cases(&self, tier: Tier) -> u64 {
        tier.pick(200, 4_000)
    }
    fn strategy(&self, ctx: &Ctx) -> BoxedStrategy<WcqCase> {
        strategy(ctx.tier).boxed()
    }
    fn max_shrink_iters(&self) -> u32 {
        48
    }
    fn record_current(&self) -> bool {
        true // a panic inside do_work unwinds through its WaitGuard, whose destructor panics again on the poisoned mutex: abort
    }
    fn run(&self, ctx: &Ctx, c: &WcqCase) -> Outcome {
        crate::repeat_if_replay(ctx, || run_wcq(ctx, c))
    }
}


/// Shallow queues, many calls: batch limit b and exactly b + 1 callers with nothing between their
/// calls, 60 000 calls each.  The hand-over of the head position from a served caller to the one
/// caller behind it happens a few hundred thousand times per case; the ordinary part, with up to 200
/// calls per thread, sees it a few hundred times.  Same oracle (run_wcq), same exact all-parked verdict.
pub struct WcqHandoff;

impl Property for WcqHandoff {
    type Case = WcqCase;
    fn name(&self) -> String {
        "coalescing-queue-handoff".into()
    }
    fn cases(&self, tier: Tier) -> u64 {
        tier.pick(2, 40)
    }
    fn strategy(&self, _: &Ctx) -> BoxedStrategy<WcqCase> {
        (1u8..4, prop_oneof![3 => Just(Pin::Free), 1 => Just(Pin::Two)], 40_000u16..60_000)
            .prop_map(|(b, pin, calls)| WcqCase {
                threads: (0..b as usize + 1).map(|_| WcqThread { calls, before: vec![Delay::None] }).collect(),
                policy: Policy::UpTo(b),
                in_work: vec![Delay::None],
                pin,
            })
            .boxed()
    }
    fn max_shrink_iters(&self) -> u32 {
        6
    }
    fn record_current(&self) -> bool {
        true
    }
    fn run(&self, ctx: &Ctx, c: &WcqCase) -> Outcome {
        let mut o = run_wcq(ctx, c);
        o.label("shallow-queue-many-calls");
        o
    }
}
