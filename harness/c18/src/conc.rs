//! Helpers for the threaded parts: generated perturbation (yield / spin / sleep patterns that are
//! part of the case), CPU pinning classes, reading sync42's counters (labels only), and a
//! supervisor with an **exact all-parked stall detector**.
//!
//! The detector: the worker threads of a case only ever block (a) inside std `Mutex`/`Condvar`
//! (an untimed futex wait) or (b) in a harness sleep, which is counted in `in_sleep`.  If every
//! worker that has not finished is observed, in three successive snapshots, inside an untimed
//! `futex(FUTEX_WAIT*)` system call, in state `S`, with unchanged voluntary/involuntary context
//! switch counts (so it did not run between the snapshots), while `in_sleep == 0` and the progress
//! counter did not move, then there is an instant at which all of them were blocked at once and no
//! thread exists that could ever wake them: the stall is decided exactly, not by a time-out.  The
//! wall-clock budget only yields "inconclusive".

use std::collections::BTreeMap;
use std::sync::atomic::{AtomicI64, AtomicU64, AtomicUsize, Ordering};
use std::time::{Duration, Instant};

use proptest::prelude::*;
use serde::{Deserialize, Serialize};

/////////////////////////////////////////////// Delay //////////////////////////////////////////////

#[derive(Clone, Copy, Debug, PartialEq, Eq, Serialize, Deserialize)]
pub enum Delay {
    None,
    Yield(u8),
    Spin(u16),
    SleepUs(u16),
}

pub fn delay() -> impl Strategy<Value = Delay> {
    prop_oneof![
        6 => Just(Delay::None),
        3 => (1u8..4).prop_map(Delay::Yield),
        3 => (1u16..3000).prop_map(Delay::Spin),
        1 => (1u16..400).prop_map(Delay::SleepUs),
    ]
}

/// A short cyclic pattern of delays.
pub fn delays() -> impl Strategy<Value = Vec<Delay>> {
    prop::collection::vec(delay(), 1..6)
}

pub fn at(p: &[Delay], i: usize) -> Delay {
    if p.is_empty() { Delay::None } else { p[i % p.len()] }
}

//////////////////////////////////////////////// Pin ///////////////////////////////////////////////

/// Where the threads of a case may run: anywhere, all on one CPU (interleavings only at blocking
/// points and preemptions), or on two CPUs.
#[derive(Clone, Copy, Debug, PartialEq, Eq, Serialize, Deserialize)]
pub enum Pin {
    Free,
    One,
    Two,
}

pub fn pin() -> impl Strategy<Value = Pin> {
    prop_oneof![5 => Just(Pin::Free), 2 => Just(Pin::One), 2 => Just(Pin::Two)]
}

/// Pin the calling thread.  `base` picks the CPUs (worker index of the process), `t` the thread.
pub fn apply_pin(p: Pin, base: usize, t: usize) {
    let ncpu = std::thread::available_parallelism().map(|n| n.get()).unwrap_or(1);
    let cpu = match p {
        Pin::Free => return,
        Pin::One => base % ncpu,
        Pin::Two => (base + (t & 1) * (ncpu / 2).max(1)) % ncpu,
    };
    unsafe {
        let mut set: libc::cpu_set_t = std::mem::zeroed();
        libc::CPU_ZERO(&mut set);
        libc::CPU_SET(cpu, &mut set);
        let _ = libc::sched_setaffinity(0, std::mem::size_of::<libc::cpu_set_t>(), &set);
    }
}

/////////////////////////////////////////////// Watch //////////////////////////////////////////////

const NOT_STARTED: i64 = 0;
const DONE: i64 = -1;

pub struct Watch {
    slots: Vec<AtomicI64>,
    in_sleep: AtomicUsize,
    progress: AtomicU64,
}

pub struct Entered<'a> {
    w: &'a Watch,
    slot: usize,
}

impl Drop for Entered<'_> {
    fn drop(&mut self) {
        self.w.slots[self.slot].store(DONE, Ordering::SeqCst);
    }
}

impl Watch {
    pub fn new(n: usize) -> Self {
        Self {
            slots: (0..n).map(|_| AtomicI64::new(NOT_STARTED)).collect(),
            in_sleep: AtomicUsize::new(0),
            progress: AtomicU64::new(0),
        }
    }

    /// Called first thing by worker `slot`; the returned guard marks it finished when dropped
    /// (also on unwinding).
    pub fn enter(&self, slot: usize) -> Entered<'_> {
        let tid = unsafe { libc::syscall(libc::SYS_gettid) } as i64;
        self.slots[slot].store(tid, Ordering::SeqCst);
        Entered { w: self, slot }
    }

    pub fn tick(&self) {
        self.progress.fetch_add(1, Ordering::SeqCst);
    }

    /// Wait until all `n` workers have entered (spinning politely; never blocks in a futex).
    pub fn rendezvous(&self) {
        while self.slots.iter().any(|s| s.load(Ordering::SeqCst) == NOT_STARTED) {
            std::thread::yield_now();
        }
    }

    pub fn pause(&self, d: Delay) {
        match d {
            Delay::None => {}
            Delay::Yield(n) => {
                for _ in 0..n {
                    std::thread::yield_now();
                }
            }
            Delay::Spin(n) => {
                for _ in 0..n {
                    std::hint::spin_loop();
                }
            }
            Delay::SleepUs(us) => {
                self.in_sleep.fetch_add(1, Ordering::SeqCst);
                std::thread::sleep(Duration::from_micros(us as u64));
                self.in_sleep.fetch_sub(1, Ordering::SeqCst);
            }
        }
    }

    fn all_done(&self) -> bool {
        self.slots.iter().all(|s| s.load(Ordering::SeqCst) == DONE)
    }

    /// One snapshot: `Some(fingerprint)` iff every unfinished worker is blocked in an untimed
    /// futex wait and nobody is in a harness sleep.
    fn snapshot(&self) -> Option<Vec<(usize, i64, u64, u64)>> {
        if self.in_sleep.load(Ordering::SeqCst) != 0 {
            return None;
        }
        let mut out = vec![];
        for (i, s) in self.slots.iter().enumerate() {
            let tid = s.load(Ordering::SeqCst);
            if tid == DONE {
                continue;
            }
            if tid == NOT_STARTED {
                return None;
            }
            let sc = std::fs::read_to_string(format!("/proc/self/task/{tid}/syscall")).ok()?;
            if !in_untimed_futex_wait(&sc) {
                return None;
            }
            let st = std::fs::read_to_string(format!("/proc/self/task/{tid}/status")).ok()?;
            let (state, vol, invol) = parse_status(&st)?;
            if state != 'S' {
                return None;
            }
            out.push((i, tid, vol, invol));
        }
        if self.in_sleep.load(Ordering::SeqCst) != 0 || out.is_empty() {
            return None;
        }
        Some(out)
    }
}

fn in_untimed_futex_wait(syscall_line: &str) -> bool {
    let toks: Vec<&str> = syscall_line.split_whitespace().collect();
    if toks.len() < 5 {
        return false; // "running" or "-1 sp pc"
    }
    let Ok(nr) = toks[0].parse::<i64>() else { return false };
    if nr != libc::SYS_futex as i64 {
        return false;
    }
    let hex = |s: &str| u64::from_str_radix(s.trim_start_matches("0x"), 16).ok();
    let (Some(op), Some(timeout)) = (hex(toks[2]), hex(toks[4])) else { return false };
    let cmd = op & 0x7f; // strip FUTEX_PRIVATE_FLAG (128) and FUTEX_CLOCK_REALTIME (256)
    (cmd == libc::FUTEX_WAIT as u64 || cmd == libc::FUTEX_WAIT_BITSET as u64) && timeout == 0
}

fn parse_status(s: &str) -> Option<(char, u64, u64)> {
    let mut state = None;
    let mut vol = None;
    let mut invol = None;
    for l in s.lines() {
        if let Some(r) = l.strip_prefix("State:") {
            state = r.trim().chars().next();
        } else if let Some(r) = l.strip_prefix("voluntary_ctxt_switches:") {
            vol = r.trim().parse().ok();
        } else if let Some(r) = l.strip_prefix("nonvoluntary_ctxt_switches:") {
            invol = r.trim().parse().ok();
        }
    }
    Some((state?, vol?, invol?))
}

pub enum Verdict {
    Done,
    /// Exactly decided: all unfinished workers are parked and nobody can wake them.
    Deadlock(String),
    /// Budget exhausted without an exact decision.
    Timeout(String),
}

/// Supervise the workers of one case from the thread that runs the case.
pub fn supervise(w: &Watch, budget: Duration) -> Verdict {
    let t0 = Instant::now();
    let mut last_progress = w.progress.load(Ordering::SeqCst);
    let mut quiet_since = Instant::now();
    let mut nap = Duration::from_micros(200);
    loop {
        if w.all_done() {
            return Verdict::Done;
        }
        std::thread::sleep(nap);
        nap = (nap * 2).min(Duration::from_millis(10));
        let p = w.progress.load(Ordering::SeqCst);
        if p != last_progress {
            last_progress = p;
            quiet_since = Instant::now();
        } else if quiet_since.elapsed() > Duration::from_millis(150) {
            // Candidate stall: take three snapshots 40 ms apart.
            if let Some(a) = w.snapshot() {
                std::thread::sleep(Duration::from_millis(40));
                if let Some(b) = w.snapshot() {
                    std::thread::sleep(Duration::from_millis(40));
                    if let Some(c) = w.snapshot() {
                        if a == b && b == c && w.progress.load(Ordering::SeqCst) == last_progress {
                            let who: Vec<String> = a.iter().map(|(i, ..)| format!("#{i}")).collect();
                            return Verdict::Deadlock(format!(
                                "workers {} are all parked in untimed futex waits (unchanged context-switch counts over 3 snapshots), none sleeping in the harness, {} steps completed",
                                who.join(","),
                                last_progress
                            ));
                        }
                    }
                }
            }
            quiet_since = Instant::now() - Duration::from_millis(100);
        }
        if t0.elapsed() > budget {
            let done = w.slots.iter().filter(|s| s.load(Ordering::SeqCst) == DONE).count();
            return Verdict::Timeout(format!(
                "budget of {:?} exhausted: {}/{} workers finished, {} steps completed",
                budget,
                done,
                w.slots.len(),
                last_progress
            ));
        }
    }
}

/// Join the workers.  After `Verdict::Done` every worker has left its body (join them all);
/// otherwise only those that have finished are joined and the rest (parked forever) are left behind.
pub fn join_finished<T>(hs: Vec<std::thread::JoinHandle<T>>, all: bool) -> Vec<Option<std::thread::Result<T>>> {
    if !all {
        // give workers that have just marked themselves done the time to leave their closure
        std::thread::sleep(Duration::from_millis(20));
    }
    hs.into_iter().map(|h| if all || h.is_finished() { Some(h.join()) } else { None }).collect()
}

pub fn panic_text(p: &(dyn std::any::Any + Send)) -> String {
    if let Some(s) = p.downcast_ref::<&str>() {
        s.to_string()
    } else if let Some(s) = p.downcast_ref::<String>() {
        s.clone()
    } else {
        "<non-string panic>".into()
    }
}

/// Of several thread panics report the root cause: the first one that is not merely a consequence
/// of a poisoned mutex.
pub fn root_panic(msgs: &[(usize, String)]) -> Option<&(usize, String)> {
    msgs.iter().find(|(_, m)| !m.contains("PoisonError")).or(msgs.first())
}

/// A short stable signature from a panic message.
pub fn panic_sig(prefix: &str, msg: &str) -> String {
    let s: String = msg
        .chars()
        .take(48)
        .map(|c| if c.is_ascii_alphanumeric() { c.to_ascii_lowercase() } else { '-' })
        .collect();
    format!("{prefix}-panic:{}", s.trim_matches('-'))
}

///////////////////////////////////////////// counters /////////////////////////////////////////////

struct Rec(BTreeMap<&'static str, u64>);

impl biometrics::Emitter for Rec {
    type Error = ();
    fn emit_counter(&mut self, c: &biometrics::Counter, _: u64) -> Result<(), ()> {
        use biometrics::Sensor;
        self.0.insert(c.label(), c.read());
        Ok(())
    }
    fn emit_gauge(&mut self, _: &biometrics::Gauge, _: u64) -> Result<(), ()> {
        Ok(())
    }
    fn emit_moments(&mut self, _: &biometrics::Moments, _: u64) -> Result<(), ()> {
        Ok(())
    }
    fn emit_histogram(&mut self, _: &biometrics::Histogram, _: u64) -> Result<(), ()> {
        Ok(())
    }
}

/// sync42's own process-global counters (used for labels: which internal paths a case exercised).
pub fn counters() -> BTreeMap<&'static str, u64> {
    use std::sync::OnceLock;
    static C: OnceLock<biometrics::Collector> = OnceLock::new();
    let c = C.get_or_init(|| {
        let c = biometrics::Collector::new();
        sync42::register_biometrics(&c);
        c
    });
    let mut r = Rec(BTreeMap::new());
    let _ = c.emit(&mut r, 0);
    r.0
}

pub fn delta(before: &BTreeMap<&'static str, u64>, after: &BTreeMap<&'static str, u64>, key: &str) -> u64 {
    after.get(key).copied().unwrap_or(0) - before.get(key).copied().unwrap_or(0)
}

pub fn bucket(n: u64) -> &'static str {
    match n {
        0 => "0",
        1 => "1",
        2..=4 => "2-4",
        5..=16 => "5-16",
        17..=64 => "17-64",
        65..=256 => "65-256",
        _ => ">256",
    }
}
