//! C18 part 1 — `sync42::lru::LeastRecentlyUsedCache` against a sequential LRU model.
//!
//! What the documentation fixes: `insert` overwrites and evicts, `insert_no_evict` overwrites and
//! never evicts, `lookup` returns the stored value, `remove` removes, `pop` pops an entry,
//! `approximate_size` is "the size of the LRU" in units of `Value::approximate_size`.  A lookup is a
//! use (that is what "least recently used" means), so it refreshes recency in every admissible
//! model.  Whether *overwriting* an existing key refreshes its recency is not documented: two
//! models are admissible and the implementation must agree with one of them for the whole history.
//! `pop` removes the entry that would be evicted next (the least recently used one).

use proptest::prelude::*;
use serde::{Deserialize, Serialize};

use sync42::lru::{LeastRecentlyUsedCache, Value};
use vcore::{Ctx, Outcome, Property, Tier};

pub const HUGE: usize = 1 << 40;

#[derive(Clone, Debug, PartialEq, Eq)]
struct V {
    tag: u32,
    size: usize,
}

impl Value for V {
    fn approximate_size(&self) -> usize {
        self.size
    }
}

#[derive(Clone, Debug, Serialize, Deserialize)]
pub enum LruOp {
    Insert { k: u8, size: usize },
    InsertNoEvict { k: u8, size: usize },
    Lookup { k: u8 },
    Remove { k: u8 },
    Pop,
}

#[derive(Clone, Debug, Serialize, Deserialize)]
pub struct LruCase {
    pub capacity: usize,
    pub ops: Vec<LruOp>,
}

fn capacity() -> impl Strategy<Value = usize> {
    prop_oneof![
        1 => Just(0usize),
        1 => Just(1usize),
        4 => 2usize..12,
        3 => 12usize..100,
        1 => Just(1000usize),
        1 => Just(1usize << 20),
    ]
}

fn size(cap: usize) -> impl Strategy<Value = usize> {
    prop_oneof![
        4 => Just(0usize),
        10 => Just(1usize),
        6 => Just(2usize),
        4 => Just(3usize),
        2 => Just(cap.saturating_sub(1)),
        2 => Just(cap),
        2 => Just(cap + 1),
        4 => Just(cap / 2),
        4 => Just(cap / 3 + 1),
        4 => Just(cap / 5 + 1),
        1 => Just(HUGE),
        8 => 0usize..cap.min(64) + 3,
    ]
}

fn op(cap: usize, nkeys: u8) -> impl Strategy<Value = LruOp> {
    let k = 0u8..nkeys;
    prop_oneof![
        5 => (k.clone(), size(cap)).prop_map(|(k, size)| LruOp::Insert { k, size }),
        2 => (k.clone(), size(cap)).prop_map(|(k, size)| LruOp::InsertNoEvict { k, size }),
        3 => k.clone().prop_map(|k| LruOp::Lookup { k }),
        1 => k.prop_map(|k| LruOp::Remove { k }),
        1 => Just(LruOp::Pop),
    ]
}

pub fn strategy() -> impl Strategy<Value = LruCase> {
    (capacity(), 1u8..7)
        .prop_flat_map(|(cap, nk)| (Just(cap), prop::collection::vec(op(cap, nk), 0..60)))
        .prop_map(|(capacity, ops)| LruCase { capacity, ops })
}

/// What one operation let us observe.
#[derive(Clone, Debug, PartialEq, Eq)]
enum Obs {
    Unit,
    Lookup(Option<(u32, usize)>),
    Pop(Option<(u8, u32, usize)>),
}

/// Sequential model: entries from most to least recently used.
struct Model {
    cap: usize,
    refresh_on_overwrite: bool,
    entries: Vec<(u8, u32, usize)>,
    evictions: u64,
    self_evictions: u64,
}

impl Model {
    fn size(&self) -> usize {
        self.entries.iter().map(|e| e.2).sum()
    }
    fn put(&mut self, k: u8, tag: u32, size: usize) -> bool {
        if let Some(p) = self.entries.iter().position(|e| e.0 == k) {
            self.entries[p] = (k, tag, size);
            if self.refresh_on_overwrite {
                let e = self.entries.remove(p);
                self.entries.insert(0, e);
            }
            true
        } else {
            self.entries.insert(0, (k, tag, size));
            false
        }
    }
    fn step(&mut self, i: usize, op: &LruOp) -> Obs {
        match *op {
            LruOp::Insert { k, size } => {
                self.put(k, i as u32, size);
                while self.size() > self.cap && !self.entries.is_empty() {
                    let e = self.entries.pop().unwrap();
                    self.evictions += 1;
                    if e.1 == i as u32 {
                        self.self_evictions += 1;
                    }
                }
                Obs::Unit
            }
            LruOp::InsertNoEvict { k, size } => {
                self.put(k, i as u32, size);
                Obs::Unit
            }
            LruOp::Lookup { k } => match self.entries.iter().position(|e| e.0 == k) {
                Some(p) => {
                    let e = self.entries.remove(p);
                    self.entries.insert(0, e);
                    Obs::Lookup(Some((e.1, e.2)))
                }
                None => Obs::Lookup(None),
            },
            LruOp::Remove { k } => {
                self.entries.retain(|e| e.0 != k);
                Obs::Unit
            }
            LruOp::Pop => Obs::Pop(self.entries.pop()),
        }
    }
}

pub struct Lru;

impl Property for Lru {
    type Case = LruCase;
    fn name(&self) -> String {
        "lru-model".into()
    }
    fn cases(&self, tier: Tier) -> u64 {
        tier.pick(40_000, 800_000)
    }
    fn strategy(&self, _: &Ctx) -> BoxedStrategy<LruCase> {
        strategy().boxed()
    }
    fn run(&self, _: &Ctx, c: &LruCase) -> Outcome {
        let mut o = Outcome::pass();
        let cap = c.capacity;
        let lru: LeastRecentlyUsedCache<u8, V> = LeastRecentlyUsedCache::new(cap);
        let mut models = [
            Model { cap, refresh_on_overwrite: false, entries: vec![], evictions: 0, self_evictions: 0 },
            Model { cap, refresh_on_overwrite: true, entries: vec![], evictions: 0, self_evictions: 0 },
        ];
        let names = ["overwrite-keeps-recency", "overwrite-refreshes-recency"];
        // (signature, message) of the first disagreement with each model
        let mut dead: [Option<(String, String)>; 2] = [None, None];
        let mut overwrites = 0u64;
        let mut over_cap_noevict = 0u64;
        // Σ sizes ever handed to insert_no_evict: an upper bound of the only admissible excess over
        // the capacity.
        let mut slack: usize = 0;
        if lru.approximate_size() != 0 {
            o.fail("lru-size-mismatch", "a new cache does not have size 0");
            return o;
        }
        for (i, op) in c.ops.iter().enumerate() {
            let before = lru.approximate_size();
            let obs = match *op {
                LruOp::Insert { k, size } => {
                    lru.insert(k, V { tag: i as u32, size });
                    // (not reset: the property lets entries inserted with eviction disabled stay
                    // resident; the exact eviction behaviour is the models' business)
                    Obs::Unit
                }
                LruOp::InsertNoEvict { k, size } => {
                    lru.insert_no_evict(k, V { tag: i as u32, size });
                    slack = slack.saturating_add(size);
                    Obs::Unit
                }
                LruOp::Lookup { k } => Obs::Lookup(lru.lookup(&k).map(|v| (v.tag, v.size))),
                LruOp::Remove { k } => {
                    lru.remove(&k);
                    Obs::Unit
                }
                LruOp::Pop => Obs::Pop(lru.pop().map(|(k, v)| (k, v.tag, v.size))),
            };
            let size = lru.approximate_size();
            // model-independent statements of the property
            if size > cap.saturating_add(slack) {
                o.fail(
                    "lru-over-capacity",
                    format!("after op #{i} {op:?}: accounted size {size} exceeds capacity {cap} by more than the {slack} bytes ever inserted with eviction disabled"),
                );
                return o;
            }
            if matches!(op, LruOp::Lookup { .. } | LruOp::Remove { .. } | LruOp::Pop) && size > before {
                o.fail("lru-size-mismatch", format!("op #{i} {op:?} increased the accounted size from {before} to {size}"));
                return o;
            }
            for (m, model) in models.iter_mut().enumerate() {
                if dead[m].is_some() {
                    continue;
                }
                let had = match op {
                    LruOp::Insert { k, .. } | LruOp::InsertNoEvict { k, .. } => model.entries.iter().any(|e| e.0 == *k),
                    _ => false,
                };
                let want = model.step(i, op);
                if m == 0 && had {
                    overwrites += 1;
                }
                if m == 0 && matches!(op, LruOp::InsertNoEvict { .. }) && model.size() > cap {
                    over_cap_noevict += 1;
                }
                if want != obs {
                    let sig = match obs {
                        Obs::Lookup(_) => "lru-lookup-mismatch",
                        Obs::Pop(_) => "lru-pop-mismatch",
                        Obs::Unit => "lru-mismatch",
                    };
                    dead[m] = Some((sig.into(), format!("op #{i} {op:?}: cache answered {obs:?}, model[{}] says {want:?}", names[m])));
                } else if model.size() != size {
                    dead[m] = Some((
                        "lru-size-mismatch".into(),
                        format!("after op #{i} {op:?}: approximate_size() = {size}, model[{}] holds Σ sizes = {} in {:?}", names[m], model.size(), model.entries),
                    ));
                }
            }
            if dead.iter().all(|d| d.is_some()) {
                break;
            }
        }
        // Drain: observes the complete recency order and the accounting.
        if dead.iter().any(|d| d.is_none()) {
            let accounted = lru.approximate_size();
            let mut drained = vec![];
            while let Some((k, v)) = lru.pop() {
                drained.push((k, v.tag, v.size));
                if drained.len() > c.ops.len() + 1 {
                    o.fail("lru-drain-mismatch", "pop() keeps returning entries beyond everything ever inserted");
                    return o;
                }
            }
            let sum: usize = drained.iter().map(|e| e.2).sum();
            if sum != accounted {
                o.fail("lru-size-not-sum", format!("accounted size {accounted} != Σ sizes {sum} of the entries actually held {drained:?}"));
                return o;
            }
            if lru.approximate_size() != 0 {
                o.fail("lru-size-not-sum", format!("cache is empty but its accounted size is {}", lru.approximate_size()));
                return o;
            }
            for (m, model) in models.iter().enumerate() {
                if dead[m].is_some() {
                    continue;
                }
                let want: Vec<_> = model.entries.iter().rev().cloned().collect();
                if want != drained {
                    dead[m] = Some((
                        "lru-drain-mismatch".into(),
                        format!("draining with pop() gave {drained:?} (least recent first), model[{}] says {want:?}", names[m]),
                    ));
                }
            }
        }
        match (&dead[0], &dead[1]) {
            (Some(a), Some(b)) => {
                o.fail(a.0.clone(), format!("capacity {cap}: no admissible LRU model explains the history. {} || {}", a.1, b.1));
            }
            (None, None) => o.label("models-indistinguishable"),
            (None, Some(_)) => o.label("matched:overwrite-keeps-recency"),
            (Some(_), None) => o.label("matched:overwrite-refreshes-recency"),
        }
        let m = &models[0];
        o.nontrivial = m.evictions >= 1 && overwrites >= 1 && over_cap_noevict >= 1;
        if m.evictions > 0 {
            o.label("evicted");
        }
        if m.self_evictions > 0 {
            o.label("insert-evicted-itself");
        }
        if overwrites > 0 {
            o.label("overwrite");
        }
        if over_cap_noevict > 0 {
            o.label("no-evict-over-capacity");
        }
        if c.ops.iter().any(|op| matches!(op, LruOp::Insert { size, .. } | LruOp::InsertNoEvict { size, .. } if *size == HUGE)) {
            o.label("huge-entry");
        }
        o.label(format!(
            "capacity:{}",
            match cap {
                0 => "0",
                1 => "1",
                2..=11 => "2-11",
                12..=99 => "12-99",
                _ => "large",
            }
        ));
        o
    }
}
