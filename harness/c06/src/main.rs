fn main() {
    vcore::main_with(vec![], &[]);
}
