//! Part 4 (small; C09 covers damage in depth): the reader over hand-made frame sequences — wrong
//! discriminants, wrong CRCs, short payloads, stray zeros, oversized header lengths — never panics
//! and never yields an entry that is not inside a frame with a valid CRC.

use std::io::Cursor;

use proptest::prelude::*;
use serde::{Deserialize, Serialize};

use sst::Builder;
use sst::log::{LogIterator, LogOptions};
use vcore::{Ctx, Outcome, Property, Tier};

use crate::model::*;

#[derive(Clone, Debug, Serialize, Deserialize)]
pub enum Piece {
    /// a frame with the given discriminant around a payload of `entries` valid entries
    Frame { disc: u8, entries: u8, crc_ok: bool, drop_tail: u8, claim_extra: u8 },
    Zeros(u8),
    /// a header-length byte that is out of range, then junk
    BadLen(u8),
}

#[derive(Clone, Debug, Serialize, Deserialize)]
pub struct BytesCase {
    pub pieces: Vec<Piece>,
}

pub struct Arbitrary;

fn varint(mut x: u64, out: &mut Vec<u8>) {
    while x >= 128 {
        out.push((x as u8 & 0x7f) | 0x80);
        x >>= 7;
    }
    out.push(x as u8);
}

fn frame(disc: u32, size: u64, crc: u32, payload: &[u8], out: &mut Vec<u8>) {
    let mut h = vec![80];
    varint(size, &mut h);
    h.push(88);
    varint(disc as u64, &mut h);
    h.push(101);
    h.extend_from_slice(&crc.to_le_bytes());
    out.push(h.len() as u8);
    out.extend_from_slice(&h);
    out.extend_from_slice(payload);
}

impl Property for Arbitrary {
    type Case = BytesCase;
    fn name(&self) -> String {
        "hand-made-frames".into()
    }
    fn cases(&self, tier: Tier) -> u64 {
        tier.pick(2000, 60_000)
    }
    fn strategy(&self, _: &Ctx) -> BoxedStrategy<BytesCase> {
        let piece = prop_oneof![
            8 => (0u8..5, 0u8..4, prop::bool::weighted(0.85), prop_oneof![4 => Just(0u8), 1 => 1u8..9], prop_oneof![4 => Just(0u8), 1 => 1u8..9])
                .prop_map(|(disc, entries, crc_ok, drop_tail, claim_extra)| Piece::Frame { disc, entries, crc_ok, drop_tail, claim_extra }),
            2 => (1u8..30).prop_map(Piece::Zeros),
            1 => (21u8..=255).prop_map(Piece::BadLen),
        ];
        prop::collection::vec(piece, 0..8).prop_map(|pieces| BytesCase { pieces }).boxed()
    }
    fn run(&self, _: &Ctx, c: &BytesCase) -> Outcome {
        let mut o = Outcome::pass();
        let mut bytes = vec![];
        let mut valid: Vec<Entry> = vec![];
        let mut damaged = false;
        for (i, p) in c.pieces.iter().enumerate() {
            match p {
                Piece::Frame { disc, entries, crc_ok, drop_tail, claim_extra } => {
                    let es: Vec<Entry> = (0..*entries as usize)
                        .map(|e| make_entry((i * 16 + e) as u64, &EntryShape { klen: 3 + e as u16, ts: (i * 16 + e) as u64, vlen: if e % 2 == 0 { Some(5) } else { None }, fill: 0 }))
                        .collect();
                    let payload: Vec<u8> = if es.is_empty() { vec![] } else { raw_payload(&es) };
                    let crc = if *crc_ok { crc32c::crc32c(&payload) } else { !crc32c::crc32c(&payload) };
                    let keep = payload.len().saturating_sub(*drop_tail as usize);
                    frame(*disc as u32, payload.len() as u64 + *claim_extra as u64, crc, &payload[..keep], &mut bytes);
                    if *disc != 1 || !*crc_ok || *drop_tail != 0 || *claim_extra != 0 || es.is_empty() {
                        damaged = true;
                    }
                    valid.extend(es);
                }
                Piece::Zeros(n) => {
                    bytes.resize(bytes.len() + *n as usize, 0);
                    damaged = true;
                }
                Piece::BadLen(b) => {
                    bytes.push(*b);
                    bytes.extend_from_slice(&[0xAA; 7]);
                    damaged = true;
                }
            }
        }
        let mut it = LogIterator::from_reader(LogOptions::default(), Cursor::new(&bytes[..])).expect("from_reader");
        let mut n = 0usize;
        let mut ended_with_error = false;
        loop {
            match it.next() {
                Ok(Some(kv)) => {
                    n += 1;
                    if !valid.iter().any(|e| kv.key == &e.key[..] && kv.timestamp == e.ts && kv.value == e.val.as_deref()) {
                        o.fail("invented-entry", format!("entry #{n} (key {} ts {}) is in no frame of the input", vcore::gens::show(kv.key), kv.timestamp));
                        return o;
                    }
                    if n > valid.len() {
                        o.fail("invented-entry", format!("{n} entries were read from frames that hold {} in all", valid.len()));
                        return o;
                    }
                }
                Ok(None) => break,
                Err(_) => {
                    ended_with_error = true;
                    break;
                }
            }
        }
        if !damaged && (n != valid.len() || ended_with_error) {
            o.fail("valid-frames-not-read", format!("{} well-formed WHOLE frames hold {} entries; the reader returned {n} (error: {ended_with_error})", c.pieces.len(), valid.len()));
        }
        o.label(if damaged { "damaged" } else { "well-formed" });
        if ended_with_error {
            o.label("ends-with-error");
        }
        o.nontrivial = damaged && n > 0;
        o
    }
}

/// The payload bytes of a batch: obtained from a real one-frame log (header stripped).
fn raw_payload(es: &[Entry]) -> Vec<u8> {
    let wb = make_batch(es).expect("batch");
    let mut buf = Vec::new();
    let mut log = sst::log::LogBuilder::from_write(LogOptions::default(), &mut buf).expect("from_write");
    log.append(&wb).expect("append");
    log.flush().expect("flush");
    drop(log);
    let h = header_len(wb.approximate_size());
    buf[h..].to_vec()
}
