//! C12 — the write-ahead log of `sst` returns each batch once, in order; a torn tail loses only the
//! tail; concurrent appends are durable when they return.

mod bytes;
mod conc;
mod fault;
mod model;
mod seq;
mod shim;

use vcore::Check;

fn main() {
    let check = Check::new(
        "C12",
        "exploration",
        "Five proptest parts; all payload bytes are derived from tags, cases store shapes only. sequential-roundtrip: 1-3 (thorough 1-5) rounds of [Fill: whole-frame filler batches computed from the builder's current offset so that exactly `slack` bytes (0..45 mostly, up to 70 000) remain before the next 1 MiB boundary; then 1-3 probes: Fit = a batch whose frame is (room left in the block)+delta bytes for delta in -3..3 / -25..25 / -300..300, Batch = 1-5 explicitly shaped entries (keys 0..16 384 bytes, values none/0..32 768 bytes, timestamps 0, 1, 127, 128, 2^32, 2^64-1, random; values of zeros / 0xff / images of a valid frame header), Tiny = up to 59 one-entry batches, Big = payload MAX_BATCH_LEN / MAX_BATCH_SIZE / 1 MiB +-2, Empty = an empty batch (refused or a no-op: nothing a reader can see; which, is a label), Overfull = a batch filled to within 0..39 bytes of 1 MiB plus one entry that must be refused without changing bytes or setsum, Built = a batch put together with WriteBatch::insert, with WriteBatch::merge of two halves, or with both (same bytes as put / del), Single = one entry through LogBuilder::put / del (also every second batch of a Tiny step), MergeOver = a merge that would exceed 1 MiB must be refused and change neither bytes nor setsum (error code: label), a merge to exactly 1 MiB is recorded, Flush / Fsync between appends]; written with LogBuilder<&mut Vec<u8>> or (25 %) LogBuilder<File>; in 60 % of the cases LogOptions differ from the default (write_buffer and read_buffer each from 0, 1, 2..17, 18..21, 22..4095, 4096, ..1 MiB, 1 MiB +-1, ..2 MiB, 2 MiB +-1, 4 MiB; set through the crate's command-line parser), in 12 % rollover_size is k MiB +-60 or 100..70 000: an append whose frame would end beyond it must be refused (an accepted one must end within it; a refusal needs the frame plus at most 2 * HEADER_MAX_SIZE + 1 bytes to pass it; error code and offset movement are labels) and must not show up when the log is read nor in seal()'s setsum. Oracle (judged): LogIterator yields exactly the entries of the accepted batches in order and then ends cleanly; seal()'s setsum equals their sum; no frame found by the harness's own parser of the frame FORMAT holds the end of one batch and part of another; truncate_final_partial_frame on the intact file must not name an offset that cuts a complete batch. Recorded as labels only (not judged; C12 speaks of what a reader gets, not of the bytes): whether the writer's placement follows today's rule (pad iff at most HEADER_MAX_SIZE bytes are left, first part = room - HEADER_MAX_SIZE), whether there is one frame group per batch and the builder's offsets equal the frame ends and the file size, whether the parser can follow the file at all, log_to_setsum, the size of insert- / merge-built batches, the error codes of refusals, whether an empty batch is refused or taken as a no-op, whether a batch ABOVE the smallest documented maximum (sst::MAX_BATCH_LEN = 1 MiB - 64 KiB; log::MAX_BATCH_SIZE is larger) is accepted - acceptance is demanded up to that size only, a larger batch that is refused is skipped, one that is accepted must read back whole. Non-trivial = at least one batch is split across a block boundary. truncation: the same generator (1-2 rounds, small probes) and, for the built image, every cut length inside every split batch (header, first part, padding, second header, second part), inside every padding and the header that follows it, +-3 around every block boundary, inside the last two or three frames, plus sampled positions (dense regions longer than 700 bytes are thinned to their edges + 24 interior points; at most 900 / 2500 cuts per case). Oracle for a cut at c: the reader yields exactly the entries of all batches whose last byte lies before c (no complete batch lost, no partial batch, no foreign entry), then ends or returns Err, and never panics; for a file that ends after the first half of a split frame (the crash between the two writes of append_split) truncate_final_partial_frame is judged by its consequence only: the log truncated where it says must yield every complete batch and nothing torn (which offset it names, None or an error are labels). Non-trivial = at least one cut strictly inside a split batch. truncation also varies read_buffer / write_buffer. concurrent-append: 2-8 OS threads x 1-10 (thorough 1-20) uniquely tagged batches (8 bytes .. 1 MiB; built with put / del, insert or merge, 15 % handed over as single entries through ConcurrentLogBuilder::put / del) through one ConcurrentLogBuilder<File> on tmpfs, created by from_write, by new(path) or by from_builder on a LogBuilder that already holds 0-3 batches (flushed or still buffered; they must come first, once), with varied LogOptions, in free mode sometimes with one more thread calling ConcurrentLogBuilder::fsync (must succeed; whether everything written before the call is synced at its return is recorded as a label only); directed sizes: write pile-ups whose 2-7 waiters total exactly 1 MiB, 1 MiB +-1..3, +-13/19/38 and +-70 bytes (cut at generated points), a maximal batch (1 MiB, MAX_BATCH_SIZE, MAX_BATCH_LEN, each -0..2) waiting together with one or two tiny ones, and maximal batches in free mode; with write / fdatasync / fsync interposed in the harness binary: generated pauses before calls and generated delays (0-1500 us) inside every write and fdatasync; 40 % of the cases are forced pile-ups in which thread 0's first write (or first fdatasync) is held inside the shim until every other thread is parked in an untimed futex wait inside append (two identical /proc snapshots). Oracle (judged): every append of a batch up to the smallest documented maximum returns Ok; reading the sealed file yields every accepted batch exactly once, whole and contiguous, per-thread order and real-time order (returned-before-called) preserved; no frame holds the end of one batch and part of another; when an append returned, the end offset of the frame holding its batch's last byte was <= the file length covered by an fdatasync that had completed (the shim takes the length on entry to each sync and publishes it after success); seal()'s setsum equals the sum. Recorded as labels only: placement rule, whether an established write pile-up whose waiters total <= 1 MiB was written as one merged frame, whether an established fsync pile-up was served by one further fdatasync, frame groups above 1 MiB (coalescing is performance, not part of C12), refusals above the documented maximum. Non-trivial = at least two batches merged into one write. A saved threaded case is replayed 20 times. fault-injection: the harness's write / fdatasync fail on request: the k-th write call on the log (k chosen among the calls the case will make) and the 0, 1-2 or all calls after it fail with EIO or ENOSPC, optionally after call k wrote only a proper prefix of its buffer (short write), and / or the k-th fdatasync and 0, 1-2 or all later ones fail; targets: ConcurrentLogBuilder<File> with 2-6 threads in free mode or in a forced write / fsync pile-up (so that the failing call carries the merged batch of, or serves, every waiter), and LogBuilder<File> running appends / put / del / flush / fsync (acknowledged = append Ok and a later fsync Ok). Oracle: nothing panics; no call fails unless a system call on the log failed before it returned; every acknowledged batch lies wholly inside well-formed frames of the final file and its last byte was covered by a data sync that SUCCEEDED (file length taken on entry to the sync) when the acknowledgement was given - so neither the waiters merged into a failed write nor those served by a failed sync may be told Ok; reading the file yields every acknowledged batch once, whole, in per-thread and real-time order, possibly unacknowledged ones too, never a foreign, changed or partial batch, and may stop with an error only after all acknowledged ones. Non-trivial = a fault fired and at least one call returned an error. hand-made-frames: up to 7 pieces (frames with any discriminant 0-4, right or wrong CRC, short or over-claimed payload; stray zeros; out-of-range header lengths): the reader never panics, yields only entries present in the input, and reads well-formed input completely. Non-trivial = damaged input from which at least one entry was read. Distinct by structural hash of the case.",
    )
    .assume("batches are built through WriteBatch (put / del / insert / merge), so the smallest batch is one tombstone with an empty key (8 bytes); 'the maximum batch' of the quantifier is read as the smallest documented maximum, sst::MAX_BATCH_LEN = 1 MiB - 64 KiB (log::MAX_BATCH_SIZE = 1 MiB - 2*HEADER_MAX_SIZE is larger): up to it every batch must be accepted; today's code accepts up to 1 MiB and those sizes are generated and must read back whole when accepted, but a refusal above the documented maximum is not a violation; logs stay far below the 1 GiB table limit; LogOptions has no documented ranges, every usize is taken as legal for the buffer sizes")
    .assume("failure path: after a failed write or sync a builder may refuse all further work or carry on; which error it returns is not prescribed. What it must not do is acknowledge a batch that is not durable and readable. A successful data sync is taken to cover every byte written before it was called, also bytes whose earlier sync failed (the stricter reading - pages dropped by a failed fsync are gone - is not applied)")
    .assume("findings C12-B (no builder stopped writing after a failed write, so a later append was framed behind torn bytes and acknowledged; repaired in /repo by 74f18ab: LogBuilder refuses all work after a failed write or flush) and C12-C (LogBuilder::append added the batch's setsum before _append could refuse the batch by rollover_size; repaired by b0958d0) are regressions/C12/C12-B-*.json and C12-C-*.json; nothing is excluded: after a failed write nothing may be acknowledged unless it is readable and durable, and seal()'s setsum equals the sum of the log's batches also after a refused append")
    .assume("a cut is acceptable when the reader returns the complete batches before it and then either ends or reports an error; which of the two is not prescribed")
    .assume("durability is judged on the intercepted libc calls: bytes are durable when an fdatasync/fsync on the log's descriptor that started after their write returned has completed with success (tmpfs itself persists nothing)")
    .assume("the anchors' description of the concurrent builder (batches merged by the head thread, one write, then one fdatasync covering every waiter) and the documented frame placement are mechanisms, not part of the property: forced pile-ups and the placement rule are observed (labels pileup-write:*, pileup-sync:*, layout:*) but never judged; judged is only what a reader, a cut or a crash could observe")
    .assume("a put/del refused by a WriteBatch must leave both the batch's bytes and its setsum unchanged (finding C12-A, repaired in /repo by fee951b; regressions/C12/C12-A-refused-put-pollutes-setsum.json); the batch keeps being used after the refusal")
    .pbt(seq::RoundTrip)
    .pbt(seq::Truncation)
    .pbt(conc::Concurrent)
    .pbt(fault::FaultInjection)
    .pbt(bytes::Arbitrary);
    vcore::main_with(vec![check], &[("selftest", model_selftest), ("layout", layout), ("labels", labels)]);
}

/// `c12 selftest`: the size arithmetic of the harness against the real encoders.
fn model_selftest(_: &[String]) -> i32 {
    use model::*;
    use sst::Builder;
    let mut bad = 0;
    for &ts in &[0u64, 1, 127, 128, 1 << 32, u64::MAX] {
        for klen in [0usize, 1, 5, 127, 128, 300, 16383, 16384] {
            for vlen in [None, Some(0usize), Some(1), Some(127), Some(128), Some(16383), Some(16384), Some(32768)] {
                let e = make_entry(7, &EntryShape { klen: klen as u16, ts, vlen: vlen.map(|v| v as u32), fill: 0 });
                let wb = make_batch(&[e]).unwrap();
                if wb.approximate_size() != entry_size(klen, ts, vlen) {
                    println!("entry_size({klen},{ts},{vlen:?}) = {} real {}", entry_size(klen, ts, vlen), wb.approximate_size());
                    bad += 1;
                }
            }
        }
    }
    let mut noplan = 0;
    for target in (8usize..70_000).chain([983_040, 1_048_535, 1_048_536, 1_048_537, 1_048_575, 1_048_576]) {
        for ts in [1u64, u64::MAX] {
            match plan_exact(target, &[], ts, 0) {
                Some(sh) => {
                    if shapes_size(&sh) != target {
                        println!("plan_exact({target}) gives {}", shapes_size(&sh));
                        bad += 1;
                    }
                }
                None => {
                    if noplan < 20 {
                        println!("no plan for {target} ts {ts}");
                    }
                    noplan += 1;
                }
            }
        }
    }
    // header lengths against real frames
    for p in [8usize, 127, 128, 16383, 16384, 100_000] {
        let sh = plan_exact(p, &[], 1, 0).unwrap();
        let es: Vec<Entry> = sh.iter().enumerate().map(|(i, s)| make_entry(i as u64, s)).collect();
        let wb = make_batch(&es).unwrap();
        let mut buf = Vec::new();
        let mut log = sst::log::LogBuilder::from_write(sst::log::LogOptions::default(), &mut buf).unwrap();
        log.append(&wb).unwrap();
        log.flush().unwrap();
        drop(log);
        if buf.len() != p + header_len(p) || wb.approximate_size() != p {
            println!("frame for payload {p}: file {} bytes, model {}", buf.len(), p + header_len(p));
            bad += 1;
        }
    }
    println!("selftest: {bad} mismatches, {noplan} targets without a plan");
    (bad > 0) as i32
}

/// `c12 labels <replay.json>...`: run saved cases once and print their labels (debugging aid: does
/// a hand-made case reach what it was made for?).
fn labels(args: &[String]) -> i32 {
    use vcore::Property;
    let scratch = std::path::PathBuf::from(format!("/dev/shm/c12-labels-{}", std::process::id()));
    std::fs::create_dir_all(&scratch).expect("scratch");
    let ctx = vcore::Ctx { prop: "C12".into(), tier: vcore::Tier::Quick, seed: 0, worker: 0, nworkers: 1, scratch: scratch.clone(), strict: false, replay: false };
    for a in args {
        let rf: vcore::ReplayFile = serde_json::from_slice(&std::fs::read(a).expect("read")).expect("parse");
        let case = rf.case.clone();
        let o = match rf.part.as_str() {
            "sequential-roundtrip" => seq::RoundTrip.run(&ctx, &serde_json::from_value(case).expect("case")),
            "truncation" => seq::Truncation.run(&ctx, &serde_json::from_value(case).expect("case")),
            "concurrent-append" => conc::Concurrent.run(&ctx, &serde_json::from_value(case).expect("case")),
            "fault-injection" => fault::FaultInjection.run(&ctx, &serde_json::from_value(case).expect("case")),
            other => {
                println!("{a}: unknown part {other}");
                continue;
            }
        };
        println!("{a}: nontrivial={} inconclusive={} failure={:?} excluded={:?}", o.nontrivial, o.inconclusive, o.failure.map(|f| f.signature), o.excluded);
        for l in o.labels {
            println!("    {l}");
        }
    }
    let _ = std::fs::remove_dir_all(scratch);
    0
}

/// `c12 layout <steps.json>`: print the frame layout a list of steps produces (debugging aid).
fn layout(args: &[String]) -> i32 {
    let steps: Vec<seq::Step> = serde_json::from_slice(&std::fs::read(&args[0]).expect("read")).expect("parse");
    let mut o = vcore::Outcome::pass();
    let mut buf: Vec<u8> = Vec::new();
    let log = sst::log::LogBuilder::from_write(sst::log::LogOptions::default(), &mut buf).unwrap();
    let Some((built, _)) = seq::build(log, &steps, 1, &mut o) else {
        println!("failed: {:?}", o.failure);
        return 1;
    };
    println!("notes {:?}", built.notes);
    match model::parse_frames(&buf) {
        Ok(fr) => {
            for f in fr {
                println!("pad {:2} frame {:8}..{:8} hdr {:2} size {:8} disc {}", f.pad_before, f.start, f.end, f.hdr_len, f.size, f.disc);
            }
        }
        Err(e) => println!("parse error: {e}"),
    }
    for (i, b) in built.batches.iter().enumerate() {
        println!("batch {i}: {} entries, end {}", b.entries.len(), b.end);
    }
    // what a reader sees when the file ends inside a split batch
    if let Ok(groups) = model::parse_frames(&buf).and_then(|f| model::group_frames(&f)) {
        for g in groups.iter() {
            let Some((f, s)) = &g.split else { continue };
            for cut in [f.start + 3, f.end, f.end + 1, s.start, s.start + 3, s.end - 1] {
                let mut exp = built.batches.iter().flat_map(|b| b.entries.iter());
                let r = seq::read_compare(&buf[..cut as usize], &mut exp);
                let path = std::env::temp_dir().join(format!("c12-layout-{}", std::process::id()));
                std::fs::write(&path, &buf[..cut as usize]).unwrap();
                let t = sst::log::truncate_final_partial_frame(sst::log::LogOptions::default(), &path);
                let _ = std::fs::remove_file(&path);
                println!(
                    "cut {cut} (first {}..{}, second {}..{}): read {:?}; truncate_final_partial_frame {:?}",
                    f.start,
                    f.end,
                    s.start,
                    s.end,
                    r.map(|(n, e)| (n, match e { seq::End::Clean => "clean end".to_string(), seq::End::Error(e) => e.chars().filter(|c| !c.is_whitespace()).take(110).collect() })),
                    t.map_err(|e| format!("{e:?}").chars().filter(|c| !c.is_whitespace()).take(90).collect::<String>())
                );
            }
        }
    }
    0
}
