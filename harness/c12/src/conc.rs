//! Part 3: 2-8 OS threads append uniquely tagged batches through `ConcurrentLogBuilder<File>`.
//!
//! The harness does not own the schedule.  It perturbs it with values that are part of the case
//! (pauses before calls, a delay inside every intercepted `write` / `fdatasync`) and, in the two
//! pile-up modes, holds the first `write` (or the first `fdatasync`) at a gate inside the shim until
//! every other thread is parked inside its `append` call — which forces the next head of the
//! write (fsync) queue to find all of them waiting.

use std::collections::BTreeMap;
use std::os::fd::AsRawFd;
use std::sync::Arc;
use std::sync::atomic::{AtomicBool, AtomicI64, AtomicU64, Ordering};
use std::time::{Duration, Instant};

use proptest::prelude::*;
use serde::{Deserialize, Serialize};

use sst::Builder;
use sst::log::{ConcurrentLogBuilder, LogIterator, LogOptions, WriteBatch};
use vcore::{Ctx, Outcome, Property, Tier};

use crate::model::*;
use crate::seq::bucket;
use crate::shim;

#[derive(Clone, Copy, Debug, PartialEq, Eq, Serialize, Deserialize)]
pub enum Delay {
    None,
    Yield(u8),
    Spin(u16),
    SleepUs(u16),
}

fn delay() -> impl Strategy<Value = Delay> {
    prop_oneof![
        6 => Just(Delay::None),
        3 => (1u8..4).prop_map(Delay::Yield),
        3 => (1u16..3000).prop_map(Delay::Spin),
        1 => (1u16..300).prop_map(Delay::SleepUs),
    ]
}

fn pause(d: Delay) {
    match d {
        Delay::None => {}
        Delay::Yield(n) => (0..n).for_each(|_| std::thread::yield_now()),
        Delay::Spin(n) => (0..n).for_each(|_| std::hint::spin_loop()),
        Delay::SleepUs(us) => std::thread::sleep(Duration::from_micros(us as u64)),
    }
}

#[derive(Clone, Copy, Debug, PartialEq, Eq, Serialize, Deserialize)]
pub enum Mode {
    /// all threads run freely
    Free,
    /// thread 0's first write is held until all other threads are parked in `append`
    PileupWrite,
    /// thread 0's first fdatasync is held until all other threads are parked in `append`
    PileupSync,
}

/// `n` entries with values of `vlen` bytes each (the last one a tombstone if `tomb`).
#[derive(Clone, Debug, Serialize, Deserialize)]
pub struct BatchShape {
    pub n: u8,
    pub vlen: u32,
    pub tomb: bool,
    pub fill: u8,
}

#[derive(Clone, Debug, Serialize, Deserialize)]
pub struct ThreadProg {
    pub batches: Vec<BatchShape>,
    pub before: Vec<Delay>,
}

#[derive(Clone, Debug, Serialize, Deserialize)]
pub struct ConcCase {
    pub threads: Vec<ThreadProg>,
    pub mode: Mode,
    pub write_delay_us: u16,
    pub sync_delay_us: u16,
    pub seed: u32,
}

fn batch_shape() -> impl Strategy<Value = BatchShape> {
    let tiny = (1u8..4, 0u32..24, any::<bool>(), 0u8..4).prop_map(|(n, vlen, tomb, fill)| BatchShape { n, vlen, tomb, fill });
    let small = (1u8..6, 100u32..3000, any::<bool>(), 0u8..4).prop_map(|(n, vlen, tomb, fill)| BatchShape { n, vlen, tomb, fill });
    let medium = (1u8..5, 8000u32..32769, any::<bool>(), 0u8..4).prop_map(|(n, vlen, tomb, fill)| BatchShape { n, vlen, tomb, fill });
    let large = (5u8..17, 30000u32..32769, any::<bool>(), 0u8..4).prop_map(|(n, vlen, tomb, fill)| BatchShape { n, vlen, tomb, fill });
    prop_oneof![5 => tiny, 4 => small, 3 => medium, 1 => large]
}

fn big_batch_shape() -> impl Strategy<Value = BatchShape> {
    (7u8..17, 32000u32..32769, any::<bool>(), 0u8..4).prop_map(|(n, vlen, tomb, fill)| BatchShape { n, vlen, tomb, fill })
}

pub fn strategy(tier: Tier) -> BoxedStrategy<ConcCase> {
    let max_batches = tier.pick(10usize, 20);
    let free_thread = (prop::collection::vec(batch_shape(), 1..=max_batches), prop::collection::vec(delay(), 1..5)).prop_map(|(batches, before)| ThreadProg { batches, before });
    let one_small = (batch_shape(), prop::collection::vec(delay(), 1..3)).prop_map(|(b, before)| ThreadProg { batches: vec![b], before });
    let one_big = (big_batch_shape(), prop::collection::vec(delay(), 1..3)).prop_map(|(b, before)| ThreadProg { batches: vec![b], before });
    let delays = (prop_oneof![3 => Just(0u16), 2 => 1u16..200, 1 => 200u16..1500], prop_oneof![3 => Just(0u16), 2 => 1u16..200, 1 => 200u16..1500]);
    let free = (prop::collection::vec(free_thread, 2..9), delays.clone(), any::<u32>())
        .prop_map(|(threads, (w, s), seed)| ConcCase { threads, mode: Mode::Free, write_delay_us: w, sync_delay_us: s, seed });
    let pile_mode = prop_oneof![Just(Mode::PileupWrite), Just(Mode::PileupSync)];
    let pile_small = (prop::collection::vec(one_small, 3..9), pile_mode.clone(), any::<u32>())
        .prop_map(|(threads, mode, seed)| ConcCase { threads, mode, write_delay_us: 0, sync_delay_us: 0, seed });
    // pile-ups whose batches can not all be merged (more than 1 MiB wait at once)
    let pile_big = (prop::collection::vec(one_big, 4..9), any::<u32>())
        .prop_map(|(threads, seed)| ConcCase { threads, mode: Mode::PileupWrite, write_delay_us: 0, sync_delay_us: 0, seed });
    prop_oneof![6 => free, 3 => pile_small, 1 => pile_big].boxed()
}

//////////////////////////////////////////// content ///////////////////////////////////////////////

fn entries_of(seed: u64, t: usize, s: usize, b: &BatchShape) -> Vec<Entry> {
    (0..b.n as usize)
        .map(|e| {
            let tag = vcore::mix(seed ^ ((t as u64) << 40) ^ ((s as u64) << 16) ^ e as u64);
            let mut key = format!("t{t:02}s{s:04}e{e:02}|").into_bytes();
            key.extend_from_slice(&fill_bytes((tag % 9) as usize, tag, 0));
            let val = if b.tomb && e + 1 == b.n as usize { None } else { Some(fill_bytes(b.vlen as usize, tag ^ 0x76, b.fill)) };
            Entry { key, ts: 1 + (tag >> 40), val }
        })
        .collect()
}

fn parse_key(k: &[u8]) -> Option<(usize, usize, usize)> {
    if k.len() < 12 || k[0] != b't' || k[3] != b's' || k[8] != b'e' || k[11] != b'|' {
        return None;
    }
    let num = |b: &[u8]| std::str::from_utf8(b).ok()?.parse::<usize>().ok();
    Some((num(&k[1..3])?, num(&k[4..8])?, num(&k[9..11])?))
}

///////////////////////////////////////////// parking //////////////////////////////////////////////

fn in_untimed_futex_wait(syscall_line: &str) -> bool {
    let toks: Vec<&str> = syscall_line.split_whitespace().collect();
    if toks.len() < 5 {
        return false;
    }
    let Ok(nr) = toks[0].parse::<i64>() else { return false };
    if nr != libc::SYS_futex as i64 {
        return false;
    }
    let hex = |s: &str| u64::from_str_radix(s.trim_start_matches("0x"), 16).ok();
    let (Some(op), Some(timeout)) = (hex(toks[2]), hex(toks[4])) else { return false };
    let cmd = op & 0x7f;
    (cmd == libc::FUTEX_WAIT as u64 || cmd == libc::FUTEX_WAIT_BITSET as u64) && timeout == 0
}

fn ctx_switches(status: &str) -> Option<(char, u64, u64)> {
    let (mut state, mut vol, mut invol) = (None, None, None);
    for l in status.lines() {
        if let Some(r) = l.strip_prefix("State:") {
            state = r.trim().chars().next();
        } else if let Some(r) = l.strip_prefix("voluntary_ctxt_switches:") {
            vol = r.trim().parse().ok();
        } else if let Some(r) = l.strip_prefix("nonvoluntary_ctxt_switches:") {
            invol = r.trim().parse().ok();
        }
    }
    Some((state?, vol?, invol?))
}

/// `Some(fingerprint)` iff every listed thread is blocked in an untimed futex wait.
fn parked_snapshot(tids: &[i64]) -> Option<Vec<(i64, u64, u64)>> {
    let mut out = vec![];
    for &tid in tids {
        if tid <= 0 {
            return None;
        }
        let sc = std::fs::read_to_string(format!("/proc/self/task/{tid}/syscall")).ok()?;
        if !in_untimed_futex_wait(&sc) {
            return None;
        }
        let st = std::fs::read_to_string(format!("/proc/self/task/{tid}/status")).ok()?;
        let (state, vol, invol) = ctx_switches(&st)?;
        if state != 'S' {
            return None;
        }
        out.push((tid, vol, invol));
    }
    Some(out)
}

////////////////////////////////////////////// the run /////////////////////////////////////////////

struct Rec {
    start: u64,
    end: u64,
    synced_at_return: u64,
    err: Option<String>,
}

struct Shared {
    clock: AtomicU64,
    tids: Vec<AtomicI64>,
    in_append: Vec<AtomicBool>,
    done: Vec<AtomicBool>,
    panicked: AtomicBool,
}

fn panic_text(p: &(dyn std::any::Any + Send)) -> String {
    if let Some(s) = p.downcast_ref::<&str>() {
        s.to_string()
    } else if let Some(s) = p.downcast_ref::<String>() {
        s.clone()
    } else {
        "<non-string panic>".into()
    }
}

fn run_once(ctx: &Ctx, c: &ConcCase) -> Outcome {
    let mut o = Outcome::pass();
    let nt = c.threads.len();
    let seed = c.seed as u64;
    // content
    let plan: Vec<Vec<Vec<Entry>>> = c.threads.iter().enumerate().map(|(t, p)| p.batches.iter().enumerate().map(|(s, b)| entries_of(seed, t, s, b)).collect()).collect();
    let mut payload: Vec<Vec<u64>> = vec![];
    let mut batches: Vec<Vec<WriteBatch>> = vec![];
    for th in plan.iter() {
        let mut ps = vec![];
        let mut bs = vec![];
        for es in th.iter() {
            match make_batch(es) {
                Ok(wb) => {
                    ps.push(wb.approximate_size() as u64);
                    bs.push(wb);
                }
                Err(e) => {
                    o.fail("batch-entry-refused", format!("a write batch within the limits refused an entry: {e:?}"));
                    return o;
                }
            }
        }
        payload.push(ps);
        batches.push(bs);
    }
    let total_batches: usize = plan.iter().map(|t| t.len()).sum();

    let dir = ctx.fresh_dir("conc");
    let path = dir.join("log");
    let file = match std::fs::OpenOptions::new().create_new(true).read(true).write(true).open(&path) {
        Ok(f) => f,
        Err(e) => {
            o.inconclusive = true;
            o.label(format!("harness: cannot create the log file: {e}"));
            return o;
        }
    };
    let fd = file.as_raw_fd();
    shim::arm(fd, c.write_delay_us as u64, c.sync_delay_us as u64);
    match c.mode {
        Mode::Free => {}
        Mode::PileupWrite => shim::GATE_WRITE_AT.store(0, Ordering::SeqCst),
        Mode::PileupSync => shim::GATE_SYNC_AT.store(0, Ordering::SeqCst),
    }
    let log = match ConcurrentLogBuilder::from_write(LogOptions::default(), file) {
        Ok(l) => Arc::new(l),
        Err(e) => {
            shim::disarm();
            o.inconclusive = true;
            o.label(format!("harness: from_write failed: {e:?}"));
            return o;
        }
    };
    let sh = Arc::new(Shared {
        clock: AtomicU64::new(1),
        tids: (0..nt).map(|_| AtomicI64::new(0)).collect(),
        in_append: (0..nt).map(|_| AtomicBool::new(false)).collect(),
        done: (0..nt).map(|_| AtomicBool::new(false)).collect(),
        panicked: AtomicBool::new(false),
    });
    let mut hs = vec![];
    for (t, wbs) in batches.into_iter().enumerate() {
        let sh = Arc::clone(&sh);
        let log = Arc::clone(&log);
        let before = c.threads[t].before.clone();
        let mode = c.mode;
        hs.push(std::thread::spawn(move || {
            sh.tids[t].store(unsafe { libc::syscall(libc::SYS_gettid) } as i64, Ordering::SeqCst);
            let r = std::panic::catch_unwind(std::panic::AssertUnwindSafe(|| {
                // rendezvous
                while sh.tids.iter().any(|x| x.load(Ordering::SeqCst) == 0) {
                    std::thread::yield_now();
                }
                if mode != Mode::Free && t != 0 {
                    let t0 = Instant::now();
                    while !shim::GATE_HELD.load(Ordering::SeqCst) && !shim::GATE_OPEN.load(Ordering::SeqCst) && t0.elapsed() < Duration::from_secs(5) {
                        std::thread::yield_now();
                    }
                }
                let mut recs = vec![];
                for (i, wb) in wbs.into_iter().enumerate() {
                    pause(if before.is_empty() { Delay::None } else { before[i % before.len()] });
                    let start = sh.clock.fetch_add(1, Ordering::SeqCst);
                    sh.in_append[t].store(true, Ordering::SeqCst);
                    let r = log.append(wb);
                    let synced_at_return = shim::SYNCED.load(Ordering::SeqCst);
                    sh.in_append[t].store(false, Ordering::SeqCst);
                    let end = sh.clock.fetch_add(1, Ordering::SeqCst);
                    recs.push(Rec { start, end, synced_at_return, err: r.err().map(|e| vcore::truncate(&format!("{e:?}"), 300)) });
                }
                recs
            }));
            if r.is_err() {
                sh.panicked.store(true, Ordering::SeqCst);
            }
            sh.done[t].store(true, Ordering::SeqCst);
            r.map_err(|p| panic_text(&*p))
        }));
    }
    // supervise
    let t0 = Instant::now();
    let mut pile_established = false;
    let mut gate_opened = c.mode == Mode::Free;
    let mut timed_out = false;
    loop {
        if sh.done.iter().all(|d| d.load(Ordering::SeqCst)) {
            break;
        }
        if sh.panicked.load(Ordering::SeqCst) && t0.elapsed() > Duration::from_millis(300) {
            // a panic inside the queue leaves the others waiting for ever; give them a moment only
            let t1 = Instant::now();
            while t1.elapsed() < Duration::from_millis(300) && !sh.done.iter().all(|d| d.load(Ordering::SeqCst)) {
                std::thread::sleep(Duration::from_millis(5));
            }
            break;
        }
        if !gate_opened {
            if shim::GATE_HELD.load(Ordering::SeqCst) {
                let tids: Vec<i64> = (1..nt).map(|t| sh.tids[t].load(Ordering::SeqCst)).collect();
                let all_in = (1..nt).all(|t| sh.in_append[t].load(Ordering::SeqCst));
                if all_in {
                    if let Some(a) = parked_snapshot(&tids) {
                        std::thread::sleep(Duration::from_millis(2));
                        if let Some(b) = parked_snapshot(&tids) {
                            if a == b && (1..nt).all(|t| sh.in_append[t].load(Ordering::SeqCst)) {
                                pile_established = true;
                            }
                        }
                    }
                }
            }
            if pile_established || t0.elapsed() > Duration::from_secs(3) {
                shim::GATE_OPEN.store(true, Ordering::SeqCst);
                gate_opened = true;
            }
        }
        if t0.elapsed() > Duration::from_secs(30) {
            timed_out = true;
            break;
        }
        std::thread::sleep(Duration::from_micros(200));
    }
    shim::GATE_OPEN.store(true, Ordering::SeqCst);
    let mut recs: Vec<Vec<Rec>> = vec![];
    let mut panics: Vec<(usize, String)> = vec![];
    let mut missing = 0;
    for (t, h) in hs.into_iter().enumerate() {
        if sh.done[t].load(Ordering::SeqCst) {
            // the closure has finished or is about to return
            match h.join() {
                Ok(Ok(r)) => recs.push(r),
                Ok(Err(m)) => {
                    panics.push((t, m));
                    recs.push(vec![]);
                }
                Err(_) => {
                    panics.push((t, "thread died outside catch_unwind".into()));
                    recs.push(vec![]);
                }
            }
        } else {
            missing += 1;
            recs.push(vec![]);
        }
    }
    let writes = shim::WRITES.load(Ordering::SeqCst);
    let syncs = shim::SYNCS.load(Ordering::SeqCst);
    let write_trace = shim::WRITE_TRACE.lock().unwrap().clone();
    if missing > 0 || !panics.is_empty() || timed_out {
        // threads may still hold the builder; leave it (and the descriptor) behind
        shim::disarm();
        if let Some((t, m)) = panics.iter().find(|(_, m)| !m.contains("PoisonError")).or(panics.first()) {
            o.nontrivial = true;
            let sig: String = m.chars().take(48).map(|c| if c.is_ascii_alphanumeric() { c.to_ascii_lowercase() } else { '-' }).collect();
            o.fail(format!("conc-append-panic:{}", sig.trim_matches('-')), format!("thread {t} panicked inside ConcurrentLogBuilder::append: {m} ({} threads panicked, {missing} never returned)", panics.len()));
            return o;
        }
        o.inconclusive = true;
        o.label(format!("watchdog: {missing} of {nt} threads had not finished after {:?}", t0.elapsed()));
        return o;
    }
    // seal
    let log = match Arc::try_unwrap(log) {
        Ok(l) => l,
        Err(_) => {
            shim::disarm();
            o.inconclusive = true;
            o.label("harness: builder still shared after all threads finished");
            return o;
        }
    };
    let sealed = log.seal();
    let shim_len = shim::LEN.load(Ordering::SeqCst);
    let odd = shim::ODD_WRITES.load(Ordering::SeqCst);
    shim::disarm();
    let setsum = match sealed {
        Ok((s, file)) => {
            drop(file);
            s
        }
        Err(e) => {
            o.fail("conc-seal-failed", format!("seal failed after {total_batches} successful appends: {e:?}"));
            return o;
        }
    };
    let verdict = judge(c, &plan, &payload, &recs, &path, setsum, pile_established, writes, syncs, shim_len, odd, &write_trace, &mut o);
    let _ = verdict;
    let _ = std::fs::remove_dir_all(&dir);
    o
}

#[allow(clippy::too_many_arguments)]
fn judge(
    c: &ConcCase,
    plan: &[Vec<Vec<Entry>>],
    payload: &[Vec<u64>],
    recs: &[Vec<Rec>],
    path: &std::path::Path,
    setsum: sst::Setsum,
    pile_established: bool,
    writes: u64,
    syncs: u64,
    shim_len: u64,
    odd: u64,
    write_trace: &[(u64, u64)],
    o: &mut Outcome,
) {
    let nt = c.threads.len();
    let total_batches: usize = plan.iter().map(|t| t.len()).sum();
    // 1. every append succeeded
    for (t, rs) in recs.iter().enumerate() {
        if rs.len() != plan[t].len() {
            o.inconclusive = true;
            o.label("harness: a thread returned fewer records than batches");
            return;
        }
        for (s, r) in rs.iter().enumerate() {
            if let Some(e) = &r.err {
                o.fail("conc-append-error", format!("append of batch {s} of thread {t} ({} payload bytes) failed: {e}", payload[t][s]));
                return;
            }
        }
    }
    let bytes = match std::fs::read(path) {
        Ok(b) => b,
        Err(e) => {
            o.inconclusive = true;
            o.label(format!("harness: cannot read the log back: {e}"));
            return;
        }
    };
    if odd > 0 || shim_len != bytes.len() as u64 {
        o.inconclusive = true;
        o.label(format!("harness: the shim saw {shim_len} bytes ({odd} short or failed writes), the file has {}", bytes.len()));
        return;
    }
    // 2. layout
    let groups = match parse_frames(&bytes).and_then(|f| group_frames(&f)) {
        Ok(g) => g,
        Err(e) => {
            o.fail("frame-layout", format!("the file written by {nt} threads is not a sequence of whole / first+second frames with zero padding: {e}"));
            return;
        }
    };
    if let Err(e) = check_placement(&groups) {
        o.fail("frame-layout", format!("in the file written by {nt} threads {e}"));
        return;
    }
    // 3. entries, through the path-based reader
    let mut it = match LogIterator::new(LogOptions::default(), path) {
        Ok(it) => it,
        Err(e) => {
            o.fail("conc-read-error", format!("cannot open the sealed log: {e:?}"));
            return;
        }
    };
    let mut order: Vec<(usize, usize)> = vec![];
    let mut cur: Option<(usize, usize, usize)> = None; // (t, s, next e)
    let mut nread = 0usize;
    loop {
        match it.next() {
            Ok(Some(kv)) => {
                nread += 1;
                let Some((t, s, e)) = parse_key(kv.key) else {
                    o.fail("conc-foreign-entry", format!("entry #{nread} has key {} which no thread wrote", vcore::gens::show(kv.key)));
                    return;
                };
                let Some(exp) = plan.get(t).and_then(|p| p.get(s)).and_then(|b| b.get(e)) else {
                    o.fail("conc-foreign-entry", format!("entry #{nread} is tagged thread {t} batch {s} entry {e}, which was never appended"));
                    return;
                };
                if kv.key != &exp.key[..] || kv.timestamp != exp.ts || kv.value != exp.val.as_deref() {
                    o.fail("conc-entry-differs", format!("entry {e} of batch {s} of thread {t} reads back with different content (value {:?} bytes, appended {:?} bytes)", kv.value.map(|v| v.len()), exp.val.as_ref().map(|v| v.len())));
                    return;
                }
                match cur {
                    Some((ct, cs, ne)) if e != 0 => {
                        if (ct, cs, ne) != (t, s, e) {
                            o.fail("conc-batch-torn", format!("entry {e} of batch {s} of thread {t} follows entry {} of batch {cs} of thread {ct}: a batch is not contiguous", ne as i64 - 1));
                            return;
                        }
                        cur = Some((t, s, e + 1));
                    }
                    _ => {
                        if e != 0 {
                            o.fail("conc-batch-torn", format!("the log starts a batch with entry {e} of batch {s} of thread {t}"));
                            return;
                        }
                        if let Some((ct, cs, ne)) = cur {
                            if ne != plan[ct][cs].len() {
                                o.fail("conc-batch-torn", format!("batch {cs} of thread {ct} stops after {ne} of {} entries", plan[ct][cs].len()));
                                return;
                            }
                        }
                        order.push((t, s));
                        cur = Some((t, s, 1));
                    }
                }
            }
            Ok(None) => break,
            Err(e) => {
                o.fail("conc-read-error", format!("reading the sealed log fails after {nread} entries: {e:?}"));
                return;
            }
        }
    }
    if let Some((ct, cs, ne)) = cur {
        if ne != plan[ct][cs].len() {
            o.fail("conc-batch-torn", format!("batch {cs} of thread {ct} (the last one in the file) has {ne} of {} entries", plan[ct][cs].len()));
            return;
        }
    }
    // 4. exactly once, per-thread order
    let mut pos: BTreeMap<(usize, usize), usize> = BTreeMap::new();
    for (i, b) in order.iter().enumerate() {
        if let Some(j) = pos.insert(*b, i) {
            o.fail("conc-batch-duplicated", format!("batch {} of thread {} occurs twice in the file (positions {j} and {i})", b.1, b.0));
            return;
        }
    }
    for (t, p) in plan.iter().enumerate() {
        for s in 0..p.len() {
            if !pos.contains_key(&(t, s)) {
                o.fail("conc-batch-missing", format!("batch {s} of thread {t} is not in the file although its append returned Ok ({} of {total_batches} batches present)", order.len()));
                return;
            }
            if s > 0 && pos[&(t, s - 1)] > pos[&(t, s)] {
                o.fail("conc-thread-order", format!("thread {t}'s batch {s} precedes its batch {} in the file", s - 1));
                return;
            }
        }
    }
    // 5. batches <-> frames
    let mut group_of: BTreeMap<(usize, usize), usize> = BTreeMap::new();
    let mut members: Vec<Vec<(usize, usize)>> = vec![];
    let mut k = 0usize;
    for (gi, g) in groups.iter().enumerate() {
        let mut acc = 0u64;
        let mut m = vec![];
        while acc < g.payload && k < order.len() {
            let (t, s) = order[k];
            acc += payload[t][s];
            group_of.insert((t, s), gi);
            m.push((t, s));
            k += 1;
        }
        if acc != g.payload {
            o.fail("conc-batch-straddles-frames", format!("frame group #{gi} carries {} payload bytes, which is not the sum of consecutive whole batches ({acc})", g.payload));
            return;
        }
        if g.payload > BLOCK {
            o.fail("conc-merged-batch-too-large", format!("frame group #{gi} carries {} payload bytes, more than the 1 MiB batch limit", g.payload));
            return;
        }
        members.push(m);
    }
    if k != order.len() {
        o.fail("conc-batch-straddles-frames", format!("{} batches were read but the frames account for {k}", order.len()));
        return;
    }
    // 6. durable at return
    for (t, rs) in recs.iter().enumerate() {
        for (s, r) in rs.iter().enumerate() {
            let g = &groups[group_of[&(t, s)]];
            if g.end > r.synced_at_return {
                o.fail(
                    "conc-not-durable-at-return",
                    format!(
                        "append of batch {s} of thread {t} returned while only the first {} bytes of the file were covered by a completed fdatasync; the batch occupies bytes {}..{} ({} fdatasync calls and {} writes in the whole run)",
                        r.synced_at_return, g.start, g.end, syncs, writes
                    ),
                );
                return;
            }
        }
    }
    // 7. real-time order: an append that returned before another one was called precedes it
    {
        let mut min_end_later: Option<(u64, (usize, usize))> = None;
        for &(t, s) in order.iter().rev() {
            let r = &recs[t][s];
            if let Some((e, (lt, ls))) = min_end_later {
                if e < r.start {
                    o.fail("conc-realtime-order", format!("batch {ls} of thread {lt} had been appended (call returned) before the append of batch {s} of thread {t} was called, yet it comes later in the file"));
                    return;
                }
            }
            if min_end_later.map(|(e, _)| r.end < e).unwrap_or(true) {
                min_end_later = Some((r.end, (t, s)));
            }
        }
    }
    // 8. setsum
    let mut want = sst::Setsum::default();
    for th in plan.iter() {
        for b in th.iter() {
            want += setsum_of(b);
        }
    }
    if want != setsum {
        o.fail("conc-seal-setsum", format!("seal returned setsum {} but the appended entries sum to {}", setsum.hexdigest(), want.hexdigest()));
        return;
    }
    // 9. forced pile-ups must be coalesced
    let merged = members.iter().filter(|m| m.len() >= 2).count() as u64;
    let max_merge = members.iter().map(|m| m.len()).max().unwrap_or(0) as u64;
    if pile_established {
        let followers: u64 = (1..nt).map(|t| payload[t][0]).sum();
        match c.mode {
            Mode::PileupWrite => {
                if followers <= BLOCK {
                    let g1 = group_of[&(1, 0)];
                    if (1..nt).any(|t| group_of[&(t, 0)] != g1) || members[g1].len() != nt - 1 {
                        o.fail(
                            "pileup-not-coalesced-write",
                            format!(
                                "{} threads were parked in append (together {followers} payload bytes <= 1 MiB) while the head's write was in progress; the next head wrote them as {} separate frame groups ({} write calls in all) instead of one merged batch",
                                nt - 1,
                                (1..nt).map(|t| group_of[&(t, 0)]).collect::<std::collections::BTreeSet<_>>().len(),
                                writes
                            ),
                        );
                        return;
                    }
                    o.label("pileup-write:merged-into-one-write");
                } else {
                    o.label("pileup-write:more-than-1MiB-waiting");
                }
            }
            Mode::PileupSync => {
                if syncs > 2 {
                    o.fail("pileup-not-coalesced-fsync", format!("{} threads were parked in append, their data written, while the head's fdatasync was in progress; afterwards {} more fdatasync calls were issued instead of one covering every waiter", nt - 1, syncs - 1));
                    return;
                }
                o.label("pileup-sync:one-fdatasync-for-all-waiters");
            }
            Mode::Free => {}
        }
    } else if c.mode != Mode::Free {
        o.label("pileup-not-established");
    }
    // measurements
    o.label(format!("mode:{:?}", c.mode));
    o.label(format!("threads:{nt}"));
    o.label(format!("batches:{}", bucket(total_batches as u64)));
    o.label(format!("merged-writes:{}", bucket(merged)));
    o.label(format!("largest-merge:{}", bucket(max_merge)));
    o.label(format!("fdatasyncs-per-append:{}", if syncs as usize >= total_batches { "1" } else if syncs as usize * 2 >= total_batches { ">=1/2" } else { "<1/2" }));
    if groups.iter().any(|g| g.split.is_some()) {
        o.label("split-frame");
    }
    if groups.iter().any(|g| g.split.is_none() && g.pad_before > 0) {
        o.label("padded-frame");
    }
    if write_trace.len() == groups.len() && write_trace.iter().zip(groups.iter()).all(|(w, g)| w.0 == g.start && w.0 + w.1 == g.end) {
        o.label("one-write-per-frame-group");
    } else {
        o.label("writes-differ-from-frame-groups");
    }
    if members.iter().zip(groups.iter()).any(|(m, g)| m.len() >= 2 && g.split.is_some()) {
        o.label("merged-and-split");
    }
    o.nontrivial = merged >= 1;
}

pub struct Concurrent;

impl Property for Concurrent {
    type Case = ConcCase;
    fn name(&self) -> String {
        "concurrent-append".into()
    }
    fn cases(&self, tier: Tier) -> u64 {
        tier.pick(200, 2500)
    }
    fn max_shrink_iters(&self) -> u32 {
        60
    }
    fn record_current(&self) -> bool {
        true
    }
    fn strategy(&self, ctx: &Ctx) -> BoxedStrategy<ConcCase> {
        strategy(ctx.tier)
    }
    fn run(&self, ctx: &Ctx, c: &ConcCase) -> Outcome {
        let n = if ctx.strict || ctx.replay { 20 } else { 1 };
        let mut last = Outcome::pass();
        for _ in 0..n {
            last = run_once(ctx, c);
            if last.failed() || last.inconclusive {
                break;
            }
        }
        last
    }
}
