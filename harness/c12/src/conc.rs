//! Part 3: 2-8 OS threads append uniquely tagged batches through `ConcurrentLogBuilder<File>`.
//!
//! The harness does not own the schedule.  It perturbs it with values that are part of the case
//! (pauses before calls, a delay inside every intercepted `write` / `fdatasync`) and, in the two
//! pile-up modes, holds the first `write` (or the first `fdatasync`) at a gate inside the shim until
//! every other thread is parked inside its `append` call — which forces the next head of the
//! write (fsync) queue to find all of them waiting.

use std::collections::BTreeMap;
use std::os::fd::AsRawFd;
use std::sync::Arc;
use std::sync::atomic::{AtomicBool, AtomicI64, Ordering};
use std::time::{Duration, Instant};

use proptest::prelude::*;
use serde::{Deserialize, Serialize};

use sst::Builder;
use sst::log::{ConcurrentLogBuilder, LogIterator, LogOptions, WriteBatch};
use vcore::gens::sel;
use vcore::{Ctx, Outcome, Property, Tier};

use crate::model::*;
use crate::seq::bucket;
use crate::shim;
use crate::shim::FaultEvent;

#[derive(Clone, Copy, Debug, PartialEq, Eq, Serialize, Deserialize)]
pub enum Delay {
    None,
    Yield(u8),
    Spin(u16),
    SleepUs(u16),
}

fn delay() -> BoxedStrategy<Delay> {
    prop_oneof![
        6 => Just(Delay::None),
        3 => (1u8..4).prop_map(Delay::Yield),
        3 => (1u16..3000).prop_map(Delay::Spin),
        1 => (1u16..300).prop_map(Delay::SleepUs),
    ]
    .boxed()
}

fn pause(d: Delay) {
    match d {
        Delay::None => {}
        Delay::Yield(n) => (0..n).for_each(|_| std::thread::yield_now()),
        Delay::Spin(n) => (0..n).for_each(|_| std::hint::spin_loop()),
        Delay::SleepUs(us) => std::thread::sleep(Duration::from_micros(us as u64)),
    }
}

#[derive(Clone, Copy, Debug, PartialEq, Eq, Serialize, Deserialize)]
pub enum Mode {
    /// all threads run freely
    Free,
    /// thread 0's first write is held until all other threads are parked in `append`
    PileupWrite,
    /// thread 0's first fdatasync is held until all other threads are parked in `append`
    PileupSync,
}

/// `n` entries with values of `vlen` bytes each (the last one a tombstone if `tomb`).
#[derive(Clone, Debug, Default, Serialize, Deserialize)]
pub struct BatchShape {
    pub n: u8,
    pub vlen: u32,
    pub tomb: bool,
    pub fill: u8,
    /// which `WriteBatch` calls build the batch
    #[serde(default)]
    pub via: Via,
    /// one entry only, handed to `ConcurrentLogBuilder::put` / `del` instead of `append`
    #[serde(default)]
    pub single: bool,
    /// payload of exactly this many bytes (entries with 12-byte keys; `n` and `vlen` are ignored)
    #[serde(default)]
    pub exact: Option<u32>,
}

/// How the concurrent builder comes into being.
#[derive(Clone, Debug, Default, Serialize, Deserialize)]
pub enum Ctor {
    /// `ConcurrentLogBuilder::from_write(options, File)`
    #[default]
    FromWrite,
    /// `ConcurrentLogBuilder::new(options, path)`
    New,
    /// `from_builder` on a `LogBuilder<File>` that already took `prefill` batches (flushed to the
    /// file or still in its buffer)
    FromBuilder { prefill: Vec<BatchShape>, flush: bool },
}

#[derive(Clone, Debug, Serialize, Deserialize)]
pub struct ThreadProg {
    pub batches: Vec<BatchShape>,
    pub before: Vec<Delay>,
}

#[derive(Clone, Debug, Serialize, Deserialize)]
pub struct ConcCase {
    pub threads: Vec<ThreadProg>,
    pub mode: Mode,
    pub write_delay_us: u16,
    pub sync_delay_us: u16,
    pub seed: u32,
    #[serde(default)]
    pub opts: OptShape,
    #[serde(default)]
    pub ctor: Ctor,
    /// calls of `ConcurrentLogBuilder::fsync` made by one extra thread (mode Free only)
    #[serde(default)]
    pub fsyncs: u8,
}

fn shape(n: u8, vlen: u32, tomb: bool, fill: u8) -> BatchShape {
    BatchShape { n, vlen, tomb, fill, ..Default::default() }
}

pub fn exact_shape(p: u32, fill: u8) -> BatchShape {
    BatchShape { n: 1, fill, exact: Some(p), ..Default::default() }
}

pub fn batch_shape() -> BoxedStrategy<BatchShape> {
    let tiny = (1u8..4, 0u32..24, any::<bool>(), 0u8..4).prop_map(|(n, vlen, tomb, fill)| shape(n, vlen, tomb, fill));
    let small = (1u8..6, 100u32..3000, any::<bool>(), 0u8..4).prop_map(|(n, vlen, tomb, fill)| shape(n, vlen, tomb, fill));
    let medium = (1u8..5, 8000u32..32769, any::<bool>(), 0u8..4).prop_map(|(n, vlen, tomb, fill)| shape(n, vlen, tomb, fill));
    let large = (5u8..17, 30000u32..32769, any::<bool>(), 0u8..4).prop_map(|(n, vlen, tomb, fill)| shape(n, vlen, tomb, fill));
    (prop_oneof![5 => tiny, 4 => small, 3 => medium, 1 => large], via_strategy(), prop::bool::weighted(0.15)).prop_map(|(mut b, via, single)| {
        b.via = via;
        b.single = single;
        b
    })
    .boxed()
}

fn big_batch_shape() -> impl Strategy<Value = BatchShape> {
    (7u8..17, 32000u32..32769, any::<bool>(), 0u8..4, via_strategy()).prop_map(|(n, vlen, tomb, fill, via)| BatchShape { via, ..shape(n, vlen, tomb, fill) })
}

/// Distances from 1 MiB that matter: the limit itself, one off, the gap between MAX_BATCH_SIZE and
/// 1 MiB, and a frame header.
fn near_limit_delta() -> impl Strategy<Value = i32> {
    prop_oneof![
        2 => Just(0i32),
        6 => -3i32..=3,
        2 => prop_oneof![Just(-(2 * HMAX as i32)), Just(-(2 * HMAX as i32) - 1), Just(-(2 * HMAX as i32) + 1), Just(-(HMAX as i32)), Just(-13i32), Just(13i32), Just(HMAX as i32)],
        2 => -70i32..=70,
    ]
}

fn ctor_strategy() -> BoxedStrategy<Ctor> {
    prop_oneof![
        5 => Just(Ctor::FromWrite),
        2 => Just(Ctor::New),
        3 => (prop::collection::vec(batch_shape(), 0..4), any::<bool>()).prop_map(|(prefill, flush)| Ctor::FromBuilder { prefill, flush }),
    ]
    .boxed()
}

pub fn strategy(tier: Tier) -> BoxedStrategy<ConcCase> {
    let max_batches = tier.pick(10usize, 20);
    let free_thread = (prop::collection::vec(batch_shape(), 1..=max_batches), prop::collection::vec(delay(), 1..5)).prop_map(|(batches, before)| ThreadProg { batches, before });
    let one_small = (batch_shape(), prop::collection::vec(delay(), 1..3)).prop_map(|(b, before)| ThreadProg { batches: vec![b], before }).boxed();
    let one_big = (big_batch_shape(), prop::collection::vec(delay(), 1..3)).prop_map(|(b, before)| ThreadProg { batches: vec![b], before });
    let delays = (prop_oneof![3 => Just(0u16), 2 => 1u16..200, 1 => 200u16..1500], prop_oneof![3 => Just(0u16), 2 => 1u16..200, 1 => 200u16..1500]);
    let setup = (opt_shape().boxed(), ctor_strategy());
    let free = (prop::collection::vec(free_thread, 2..9), delays.clone(), any::<u32>(), setup.clone(), prop_oneof![3 => Just(0u8), 1 => 1u8..6])
        .prop_map(|(threads, (w, s), seed, (opts, ctor), fsyncs)| ConcCase { threads, mode: Mode::Free, write_delay_us: w, sync_delay_us: s, seed, opts, ctor, fsyncs });
    let pile_mode = prop_oneof![Just(Mode::PileupWrite), Just(Mode::PileupSync)];
    let pile_small = (prop::collection::vec(one_small.clone(), 3..9), pile_mode.clone(), any::<u32>(), setup.clone())
        .prop_map(|(threads, mode, seed, (opts, ctor))| ConcCase { threads, mode, write_delay_us: 0, sync_delay_us: 0, seed, opts, ctor, fsyncs: 0 });
    // pile-ups whose batches can not all be merged (more than 1 MiB wait at once)
    let pile_big = (prop::collection::vec(one_big, 4..9), any::<u32>(), setup.clone())
        .prop_map(|(threads, seed, (opts, ctor))| ConcCase { threads, mode: Mode::PileupWrite, write_delay_us: 0, sync_delay_us: 0, seed, opts, ctor, fsyncs: 0 });
    // Directed sizes.  (a) the waiters of a write pile-up total 1 MiB + delta, split among 2-7
    // waiters at generated cut points; (b) a maximal batch waits together with a tiny one.
    let head = (1u8..3, 0u32..40, any::<bool>()).prop_map(|(n, vlen, tomb)| ThreadProg { batches: vec![shape(n, vlen, tomb, 0)], before: vec![Delay::None] }).boxed();
    let pile_exact = (head.clone(), near_limit_delta(), prop::collection::vec(any::<u16>(), 1..7), 0u8..4, via_strategy(), any::<u32>(), setup.clone()).prop_map(|(head, delta, mut cuts, fill, via, seed, (opts, ctor))| {
        let total = (BLOCK as i64 + delta as i64) as usize;
        let k = cuts.len() + 1;
        let min = 20usize;
        cuts.sort();
        let free_bytes = total - min * k;
        let mut at: Vec<usize> = cuts.iter().map(|c| sel(*c, free_bytes + 1)).collect();
        at.push(free_bytes);
        let mut threads = vec![head];
        let mut prev = 0usize;
        for a in at {
            let p = (min + a - prev).min(BLOCK as usize);
            prev = a;
            threads.push(ThreadProg { batches: vec![BatchShape { via, ..exact_shape(p as u32, fill) }], before: vec![Delay::None] });
        }
        ConcCase { threads, mode: Mode::PileupWrite, write_delay_us: 0, sync_delay_us: 0, seed, opts, ctor, fsyncs: 0 }
    });
    let maximal = prop_oneof![
        4 => (0u32..3).prop_map(|d| BLOCK as u32 - d),
        2 => (0u32..3).prop_map(|d| sst::log::MAX_BATCH_SIZE as u32 + 1 - d),
        1 => (0u32..3).prop_map(|d| sst::MAX_BATCH_LEN as u32 + 1 - d),
    ]
    .boxed();
    let pile_max = (head, prop::collection::vec((20u32..80, 0u8..4), 1..3), maximal.clone(), any::<u16>(), pile_mode, any::<u32>(), setup.clone()).prop_map(|(head, tinies, big, place, mode, seed, (opts, ctor))| {
        let mut followers: Vec<ThreadProg> = tinies.iter().map(|(p, fill)| ThreadProg { batches: vec![exact_shape(*p, *fill)], before: vec![Delay::None] }).collect();
        followers.insert(sel(place, followers.len() + 1), ThreadProg { batches: vec![exact_shape(big, 0)], before: vec![Delay::None] });
        let mut threads = vec![head];
        threads.extend(followers);
        ConcCase { threads, mode, write_delay_us: 0, sync_delay_us: 0, seed, opts, ctor, fsyncs: 0 }
    });
    let max_thread = (prop::collection::vec(prop_oneof![2 => maximal.prop_map(|p| exact_shape(p, 0)), 3 => batch_shape()], 1..4), prop::collection::vec(delay(), 1..3)).prop_map(|(batches, before)| ThreadProg { batches, before });
    let free_max = (prop::collection::vec(max_thread, 2..5), delays, any::<u32>(), setup)
        .prop_map(|(threads, (w, s), seed, (opts, ctor))| ConcCase { threads, mode: Mode::Free, write_delay_us: w, sync_delay_us: s, seed, opts, ctor, fsyncs: 0 });
    prop_oneof![12 => free, 6 => pile_small, 2 => pile_big, 4 => pile_exact, 2 => pile_max, 1 => free_max].boxed()
}

/// Smaller cases for the fault-injection part: 2-6 threads with 1-5 batches each, all three modes
/// (in the pile-up modes every waiter is inside its first call when the held call is released).
pub fn fault_strategy(tier: Tier) -> BoxedStrategy<ConcCase> {
    let max_batches = tier.pick(5usize, 8);
    let thread = (prop::collection::vec(batch_shape(), 1..=max_batches), prop::collection::vec(delay(), 1..4)).prop_map(|(batches, before)| ThreadProg { batches, before });
    let follower = (prop::collection::vec(batch_shape(), 1..3), prop::collection::vec(delay(), 1..3)).prop_map(|(batches, before)| ThreadProg { batches, before });
    let delays = (prop_oneof![3 => Just(0u16), 2 => 1u16..200], prop_oneof![3 => Just(0u16), 2 => 1u16..200]);
    let free = (prop::collection::vec(thread, 2..7), delays, any::<u32>(), opt_shape(), ctor_strategy(), prop_oneof![3 => Just(0u8), 1 => 1u8..4])
        .prop_map(|(threads, (w, s), seed, opts, ctor, fsyncs)| ConcCase { threads, mode: Mode::Free, write_delay_us: w, sync_delay_us: s, seed, opts, ctor, fsyncs });
    let pile = (prop::collection::vec(follower, 3..7), prop_oneof![Just(Mode::PileupWrite), Just(Mode::PileupSync)], any::<u32>(), opt_shape(), ctor_strategy())
        .prop_map(|(threads, mode, seed, opts, ctor)| ConcCase { threads, mode, write_delay_us: 0, sync_delay_us: 0, seed, opts, ctor, fsyncs: 0 });
    prop_oneof![5 => free, 6 => pile].boxed()
}

//////////////////////////////////////////// content ///////////////////////////////////////////////

pub fn entries_of(seed: u64, t: usize, s: usize, b: &BatchShape) -> Vec<Entry> {
    if let (Some(p), false) = (b.exact, b.single) {
        if let Some(vs) = plan_exact_tagged(p as usize) {
            return vs
                .iter()
                .enumerate()
                .map(|(e, v)| {
                    let tag = vcore::mix(seed ^ ((t as u64) << 40) ^ ((s as u64) << 16) ^ e as u64);
                    Entry { key: format!("t{t:02}s{s:04}e{e:02}|").into_bytes(), ts: TAGGED_TS, val: v.map(|n| fill_bytes(n, tag ^ 0x76, b.fill)) }
                })
                .collect();
        }
    }
    let n = if b.single { 1 } else { b.n.max(1) as usize };
    (0..n)
        .map(|e| {
            let tag = vcore::mix(seed ^ ((t as u64) << 40) ^ ((s as u64) << 16) ^ e as u64);
            let mut key = format!("t{t:02}s{s:04}e{e:02}|").into_bytes();
            key.extend_from_slice(&fill_bytes((tag % 9) as usize, tag, 0));
            let val = if b.tomb && e + 1 == n { None } else { Some(fill_bytes(b.vlen as usize, tag ^ 0x76, b.fill)) };
            Entry { key, ts: 1 + (tag >> 40), val }
        })
        .collect()
}

/// What a thread hands to the builder.
pub enum Prepared {
    Batch(WriteBatch),
    /// through `ConcurrentLogBuilder::put` / `del`
    Single(Entry),
}

/// The call for batch `b` with entries `es`, and its payload size in the log.
pub fn prepare(es: &[Entry], b: &BatchShape) -> Result<(Prepared, u64), sst::SError> {
    if b.single {
        let wb = make_batch(es)?;
        Ok((Prepared::Single(es[0].clone()), wb.approximate_size() as u64))
    } else {
        let wb = make_batch_via(es, b.via)?;
        let sz = wb.approximate_size() as u64;
        Ok((Prepared::Batch(wb), sz))
    }
}

pub fn parse_key(k: &[u8]) -> Option<(usize, usize, usize)> {
    if k.len() < 12 || k[0] != b't' || k[3] != b's' || k[8] != b'e' || k[11] != b'|' {
        return None;
    }
    let num = |b: &[u8]| std::str::from_utf8(b).ok()?.parse::<usize>().ok();
    Some((num(&k[1..3])?, num(&k[4..8])?, num(&k[9..11])?))
}

///////////////////////////////////////////// parking //////////////////////////////////////////////

fn in_untimed_futex_wait(syscall_line: &str) -> bool {
    let toks: Vec<&str> = syscall_line.split_whitespace().collect();
    if toks.len() < 5 {
        return false;
    }
    let Ok(nr) = toks[0].parse::<i64>() else { return false };
    if nr != libc::SYS_futex as i64 {
        return false;
    }
    let hex = |s: &str| u64::from_str_radix(s.trim_start_matches("0x"), 16).ok();
    let (Some(op), Some(timeout)) = (hex(toks[2]), hex(toks[4])) else { return false };
    let cmd = op & 0x7f;
    (cmd == libc::FUTEX_WAIT as u64 || cmd == libc::FUTEX_WAIT_BITSET as u64) && timeout == 0
}

fn ctx_switches(status: &str) -> Option<(char, u64, u64)> {
    let (mut state, mut vol, mut invol) = (None, None, None);
    for l in status.lines() {
        if let Some(r) = l.strip_prefix("State:") {
            state = r.trim().chars().next();
        } else if let Some(r) = l.strip_prefix("voluntary_ctxt_switches:") {
            vol = r.trim().parse().ok();
        } else if let Some(r) = l.strip_prefix("nonvoluntary_ctxt_switches:") {
            invol = r.trim().parse().ok();
        }
    }
    Some((state?, vol?, invol?))
}

/// `Some(fingerprint)` iff every listed thread is blocked in an untimed futex wait.
fn parked_snapshot(tids: &[i64]) -> Option<Vec<(i64, u64, u64)>> {
    let mut out = vec![];
    for &tid in tids {
        if tid <= 0 {
            return None;
        }
        let sc = std::fs::read_to_string(format!("/proc/self/task/{tid}/syscall")).ok()?;
        if !in_untimed_futex_wait(&sc) {
            return None;
        }
        let st = std::fs::read_to_string(format!("/proc/self/task/{tid}/status")).ok()?;
        let (state, vol, invol) = ctx_switches(&st)?;
        if state != 'S' {
            return None;
        }
        out.push((tid, vol, invol));
    }
    Some(out)
}

////////////////////////////////////////////// the run /////////////////////////////////////////////

pub struct Rec {
    pub start: u64,
    pub end: u64,
    pub synced_at_return: u64,
    pub err: Option<String>,
}

/// One call of `ConcurrentLogBuilder::fsync` by the extra thread.
pub struct FsyncRec {
    /// bytes in the file when the call was made
    pub len_before: u64,
    pub synced_at_return: u64,
    pub end: u64,
    pub err: Option<String>,
}

struct Shared {
    /// some thread has returned from a call
    any_returned: AtomicBool,
    tids: Vec<AtomicI64>,
    in_append: Vec<AtomicBool>,
    done: Vec<AtomicBool>,
    panicked: AtomicBool,
}

pub fn panic_text(p: &(dyn std::any::Any + Send)) -> String {
    if let Some(s) = p.downcast_ref::<&str>() {
        s.to_string()
    } else if let Some(s) = p.downcast_ref::<String>() {
        s.clone()
    } else {
        "<non-string panic>".into()
    }
}

/// The descriptor this process holds on `path` (for builders that open the file themselves).
pub fn fd_of_path(path: &std::path::Path) -> Option<i32> {
    let want = std::fs::canonicalize(path).ok()?;
    for e in std::fs::read_dir("/proc/self/fd").ok()?.flatten() {
        if let Ok(target) = std::fs::read_link(e.path()) {
            if target == want {
                return e.file_name().to_str()?.parse().ok();
            }
        }
    }
    None
}

/// Everything observed while the threads ran.
pub struct Driven {
    /// entries per thread and batch; the prefill of `Ctor::FromBuilder` is a pseudo thread after the
    /// real ones
    pub plan: Vec<Vec<Vec<Entry>>>,
    pub payload: Vec<Vec<u64>>,
    pub recs: Vec<Vec<Rec>>,
    pub fsyncs: Vec<FsyncRec>,
    pub pile_established: bool,
    pub writes: u64,
    pub syncs: u64,
    pub shim_len: u64,
    pub odd: u64,
    pub write_trace: Vec<(u64, u64)>,
    pub faults: Vec<FaultEvent>,
    pub writes_after_failure: u64,
    pub sealed: Result<sst::Setsum, String>,
    pub opts: LogOptions,
    pub dir: std::path::PathBuf,
    pub path: std::path::PathBuf,
}

/// Run the threads of `c` against a fresh builder.  `after_arm(writes, syncs)` is called when the
/// shim watches the log's descriptor and the builder exists (with the number of write / sync calls
/// the construction itself made), before any thread starts; `tolerate_errors` keeps going when the
/// construction fails.  `Err` carries the outcome of a run that can not be judged.
pub fn drive(ctx: &Ctx, c: &ConcCase, after_arm: &dyn Fn(u64, u64)) -> Result<Driven, Outcome> {
    let mut o = Outcome::pass();
    let nt = c.threads.len();
    let seed = c.seed as u64;
    let opts = c.opts.build();
    // content
    let mut shapes: Vec<Vec<BatchShape>> = c.threads.iter().map(|p| p.batches.clone()).collect();
    let prefill: Vec<BatchShape> = match &c.ctor {
        Ctor::FromBuilder { prefill, .. } => prefill.iter().map(|b| BatchShape { single: false, ..b.clone() }).collect(),
        _ => vec![],
    };
    let prefilled = matches!(c.ctor, Ctor::FromBuilder { .. });
    if prefilled {
        shapes.push(prefill);
    }
    let plan: Vec<Vec<Vec<Entry>>> = shapes.iter().enumerate().map(|(t, bs)| bs.iter().enumerate().map(|(s, b)| entries_of(seed, t, s, b)).collect()).collect();
    let mut payload: Vec<Vec<u64>> = vec![];
    let mut prepared: Vec<Vec<Prepared>> = vec![];
    for (t, th) in plan.iter().enumerate() {
        let mut ps = vec![];
        let mut bs = vec![];
        for (s, es) in th.iter().enumerate() {
            match prepare(es, &shapes[t][s]) {
                Ok((p, sz)) => {
                    ps.push(sz);
                    bs.push(p);
                }
                Err(e) => {
                    // acceptance is demanded up to the smallest documented maximum only
                    let size: usize = es.iter().map(|e| entry_size(e.key.len(), e.ts, e.val.as_ref().map(|v| v.len()))).sum();
                    if size as u64 > MUST_ACCEPT {
                        o.label("refused-above-documented-maximum:batch(case-skipped)");
                        return Err(o);
                    }
                    o.fail("batch-entry-refused", format!("a write batch of {size} bytes refused an entry: {e:?}"));
                    return Err(o);
                }
            }
        }
        payload.push(ps);
        prepared.push(bs);
    }

    let dir = ctx.fresh_dir("conc");
    let path = dir.join("log");
    macro_rules! harness_fail {
        ($($m:tt)*) => {{
            shim::disarm();
            o.inconclusive = true;
            o.label(format!($($m)*));
            return Err(o);
        }};
    }
    let log: ConcurrentLogBuilder<std::fs::File> = match &c.ctor {
        Ctor::New => {
            let log = match ConcurrentLogBuilder::new(opts.clone(), &path) {
                Ok(l) => l,
                Err(e) => harness_fail!("harness: ConcurrentLogBuilder::new failed: {e:?}"),
            };
            let Some(fd) = fd_of_path(&path) else { harness_fail!("harness: cannot find the descriptor of the log") };
            shim::arm(fd, c.write_delay_us as u64, c.sync_delay_us as u64);
            log
        }
        other => {
            let file = match std::fs::OpenOptions::new().create_new(true).read(true).write(true).open(&path) {
                Ok(f) => f,
                Err(e) => harness_fail!("harness: cannot create the log file: {e}"),
            };
            shim::arm(file.as_raw_fd(), c.write_delay_us as u64, c.sync_delay_us as u64);
            match other {
                Ctor::FromBuilder { flush, .. } => {
                    let mut b = match sst::log::LogBuilder::from_write(opts.clone(), file) {
                        Ok(b) => b,
                        Err(e) => harness_fail!("harness: from_write failed: {e:?}"),
                    };
                    for p in prepared.pop().unwrap_or_default() {
                        let Prepared::Batch(wb) = p else { continue };
                        if let Err(e) = b.append(&wb) {
                            shim::disarm();
                            if wb.approximate_size() as u64 > MUST_ACCEPT {
                                o.label("refused-above-documented-maximum:prefill(case-skipped)");
                                return Err(o);
                            }
                            o.fail("append-refused", format!("LogBuilder::append of a prefill batch failed: {e:?}"));
                            return Err(o);
                        }
                    }
                    if *flush {
                        if let Err(e) = b.flush() {
                            shim::disarm();
                            o.fail("flush-failed", format!("LogBuilder::flush failed: {e:?}"));
                            return Err(o);
                        }
                    }
                    match ConcurrentLogBuilder::from_builder(b) {
                        Ok(l) => l,
                        Err(e) => harness_fail!("harness: from_builder failed: {e:?}"),
                    }
                }
                _ => match ConcurrentLogBuilder::from_write(opts.clone(), file) {
                    Ok(l) => l,
                    Err(e) => harness_fail!("harness: from_write failed: {e:?}"),
                },
            }
        }
    };
    let log = Arc::new(log);
    let (w0, s0) = (shim::WRITES.load(Ordering::SeqCst), shim::SYNCS.load(Ordering::SeqCst));
    match c.mode {
        Mode::Free => {}
        Mode::PileupWrite => shim::GATE_WRITE_AT.store(w0, Ordering::SeqCst),
        Mode::PileupSync => shim::GATE_SYNC_AT.store(s0, Ordering::SeqCst),
    }
    after_arm(w0, s0);
    let fsyncer = c.mode == Mode::Free && c.fsyncs > 0;
    let nthreads = nt + fsyncer as usize;
    let sh = Arc::new(Shared {
        any_returned: AtomicBool::new(false),
        tids: (0..nthreads).map(|_| AtomicI64::new(0)).collect(),
        in_append: (0..nthreads).map(|_| AtomicBool::new(false)).collect(),
        done: (0..nthreads).map(|_| AtomicBool::new(false)).collect(),
        panicked: AtomicBool::new(false),
    });
    let mut hs = vec![];
    for (t, wbs) in prepared.into_iter().enumerate() {
        let sh = Arc::clone(&sh);
        let log = Arc::clone(&log);
        let before = c.threads[t].before.clone();
        let mode = c.mode;
        hs.push(std::thread::spawn(move || {
            sh.tids[t].store(unsafe { libc::syscall(libc::SYS_gettid) } as i64, Ordering::SeqCst);
            let r = std::panic::catch_unwind(std::panic::AssertUnwindSafe(|| {
                // rendezvous
                while sh.tids.iter().any(|x| x.load(Ordering::SeqCst) == 0) {
                    std::thread::yield_now();
                }
                if mode != Mode::Free && t != 0 {
                    let t0 = Instant::now();
                    while !shim::GATE_HELD.load(Ordering::SeqCst) && !shim::GATE_OPEN.load(Ordering::SeqCst) && t0.elapsed() < Duration::from_secs(5) {
                        std::thread::yield_now();
                    }
                }
                let mut recs = vec![];
                for (i, wb) in wbs.into_iter().enumerate() {
                    pause(if before.is_empty() { Delay::None } else { before[i % before.len()] });
                    let start = shim::tick();
                    sh.in_append[t].store(true, Ordering::SeqCst);
                    let r = match wb {
                        Prepared::Batch(wb) => log.append(wb),
                        Prepared::Single(e) => match &e.val {
                            Some(v) => log.put(&e.key, e.ts, v),
                            None => log.del(&e.key, e.ts),
                        },
                    };
                    let synced_at_return = shim::SYNCED.load(Ordering::SeqCst);
                    sh.in_append[t].store(false, Ordering::SeqCst);
                    sh.any_returned.store(true, Ordering::SeqCst);
                    let end = shim::tick();
                    recs.push(Rec { start, end, synced_at_return, err: r.err().map(|e| vcore::truncate(&format!("{e:?}"), 300)) });
                }
                recs
            }));
            if r.is_err() {
                sh.panicked.store(true, Ordering::SeqCst);
            }
            sh.done[t].store(true, Ordering::SeqCst);
            r.map_err(|p| panic_text(&*p))
        }));
    }
    let fsync_handle = if fsyncer {
        let sh = Arc::clone(&sh);
        let log = Arc::clone(&log);
        let calls = c.fsyncs;
        let before = c.threads[0].before.clone();
        Some(std::thread::spawn(move || {
            sh.tids[nt].store(unsafe { libc::syscall(libc::SYS_gettid) } as i64, Ordering::SeqCst);
            let r = std::panic::catch_unwind(std::panic::AssertUnwindSafe(|| {
                while sh.tids.iter().any(|x| x.load(Ordering::SeqCst) == 0) {
                    std::thread::yield_now();
                }
                let mut recs = vec![];
                for i in 0..calls as usize {
                    pause(if before.is_empty() { Delay::Yield(1) } else { before[i % before.len()] });
                    std::thread::yield_now();
                    let len_before = shim::LEN.load(Ordering::SeqCst);
                    let r = log.fsync();
                    let synced_at_return = shim::SYNCED.load(Ordering::SeqCst);
                    let end = shim::tick();
                    recs.push(FsyncRec { len_before, synced_at_return, end, err: r.err().map(|e| vcore::truncate(&format!("{e:?}"), 300)) });
                }
                recs
            }));
            if r.is_err() {
                sh.panicked.store(true, Ordering::SeqCst);
            }
            sh.done[nt].store(true, Ordering::SeqCst);
            r.map_err(|p| panic_text(&*p))
        }))
    } else {
        None
    };
    // supervise
    let t0 = Instant::now();
    let mut pile_established = false;
    let mut gate_opened = c.mode == Mode::Free;
    let mut timed_out = false;
    loop {
        if sh.done.iter().all(|d| d.load(Ordering::SeqCst)) {
            break;
        }
        if sh.panicked.load(Ordering::SeqCst) && t0.elapsed() > Duration::from_millis(300) {
            // a panic inside the queue leaves the others waiting for ever; give them a moment only
            let t1 = Instant::now();
            while t1.elapsed() < Duration::from_millis(300) && !sh.done.iter().all(|d| d.load(Ordering::SeqCst)) {
                std::thread::sleep(Duration::from_millis(5));
            }
            break;
        }
        if !gate_opened {
            if shim::GATE_HELD.load(Ordering::SeqCst) {
                let tids: Vec<i64> = (1..nt).map(|t| sh.tids[t].load(Ordering::SeqCst)).collect();
                let all_in = (1..nt).all(|t| sh.in_append[t].load(Ordering::SeqCst));
                if all_in {
                    if let Some(a) = parked_snapshot(&tids) {
                        std::thread::sleep(Duration::from_millis(2));
                        if let Some(b) = parked_snapshot(&tids) {
                            if a == b && (1..nt).all(|t| sh.in_append[t].load(Ordering::SeqCst)) {
                                pile_established = true;
                            }
                        }
                    }
                }
            }
            // (With injected faults the head may fail before it reaches the call that is to be held,
            // and a waiter may fail and leave; without faults no call returns while the gate is shut.)
            if pile_established || sh.any_returned.load(Ordering::SeqCst) || t0.elapsed() > Duration::from_secs(3) {
                shim::GATE_OPEN.store(true, Ordering::SeqCst);
                gate_opened = true;
            }
        }
        if t0.elapsed() > Duration::from_secs(30) {
            timed_out = true;
            break;
        }
        std::thread::sleep(Duration::from_micros(200));
    }
    shim::GATE_OPEN.store(true, Ordering::SeqCst);
    let mut recs: Vec<Vec<Rec>> = vec![];
    let mut panics: Vec<(usize, String)> = vec![];
    let mut missing = 0;
    for (t, h) in hs.into_iter().enumerate() {
        if sh.done[t].load(Ordering::SeqCst) {
            // the closure has finished or is about to return
            match h.join() {
                Ok(Ok(r)) => recs.push(r),
                Ok(Err(m)) => {
                    panics.push((t, m));
                    recs.push(vec![]);
                }
                Err(_) => {
                    panics.push((t, "thread died outside catch_unwind".into()));
                    recs.push(vec![]);
                }
            }
        } else {
            missing += 1;
            recs.push(vec![]);
        }
    }
    let mut fsyncs = vec![];
    if let Some(h) = fsync_handle {
        if sh.done[nt].load(Ordering::SeqCst) {
            match h.join() {
                Ok(Ok(r)) => fsyncs = r,
                Ok(Err(m)) => panics.push((nt, m)),
                Err(_) => panics.push((nt, "thread died outside catch_unwind".into())),
            }
        } else {
            missing += 1;
        }
    }
    let writes = shim::WRITES.load(Ordering::SeqCst);
    let syncs = shim::SYNCS.load(Ordering::SeqCst);
    let write_trace = shim::WRITE_TRACE.lock().unwrap().clone();
    if missing > 0 || !panics.is_empty() || timed_out {
        // threads may still hold the builder; leave it (and the descriptor) behind
        shim::disarm();
        if let Some((t, m)) = panics.iter().find(|(_, m)| !m.contains("PoisonError")).or(panics.first()) {
            o.nontrivial = true;
            let sig: String = m.chars().take(48).map(|c| if c.is_ascii_alphanumeric() { c.to_ascii_lowercase() } else { '-' }).collect();
            o.fail(format!("conc-append-panic:{}", sig.trim_matches('-')), format!("thread {t} panicked inside ConcurrentLogBuilder::append: {m} ({} threads panicked, {missing} never returned)", panics.len()));
            return Err(o);
        }
        o.inconclusive = true;
        o.label(format!("watchdog: {missing} of {nthreads} threads had not finished after {:?}", t0.elapsed()));
        return Err(o);
    }
    // seal
    let log = match Arc::try_unwrap(log) {
        Ok(l) => l,
        Err(_) => {
            shim::disarm();
            o.inconclusive = true;
            o.label("harness: builder still shared after all threads finished");
            return Err(o);
        }
    };
    let writes_after_failure = shim::WRITES_AFTER_FAILURE.load(Ordering::SeqCst);
    let sealed = match vcore::guard(|| log.seal()) {
        Ok(r) => r.map(|(s, file)| {
            drop(file);
            s
        })
        .map_err(|e| vcore::truncate(&format!("{e:?}"), 300)),
        Err(f) => {
            shim::disarm();
            o.nontrivial = true;
            o.fail(f.signature, format!("ConcurrentLogBuilder::seal panics: {}", f.message));
            return Err(o);
        }
    };
    let shim_len = shim::LEN.load(Ordering::SeqCst);
    let odd = shim::ODD_WRITES.load(Ordering::SeqCst);
    let faults = shim::FAULT_LOG.lock().unwrap().clone();
    shim::disarm();
    // the prefill is a pseudo thread whose appends are not acknowledged as durable by anybody
    if prefilled {
        recs.push(plan[nt].iter().map(|_| Rec { start: 0, end: 0, synced_at_return: u64::MAX, err: None }).collect());
    }
    Ok(Driven { plan, payload, recs, fsyncs, pile_established, writes, syncs, shim_len, odd, write_trace, faults, writes_after_failure, sealed, opts, dir, path })
}

fn run_once(ctx: &Ctx, c: &ConcCase) -> Outcome {
    let d = match drive(ctx, c, &|_, _| {}) {
        Ok(d) => d,
        Err(o) => return o,
    };
    let mut o = Outcome::pass();
    judge(c, &d, &mut o);
    let _ = std::fs::remove_dir_all(&d.dir);
    o
}

/// Batches in the order the reader yields them, and how the iteration ended.
pub struct ReadBack {
    pub order: Vec<(usize, usize)>,
    pub entries: usize,
    /// the reader's error, if it did not end cleanly
    pub error: Option<String>,
}

/// Read the log through the path-based reader and check every entry against the plan: no entry
/// that was never appended, no changed entry, every batch whole and contiguous.  `Err(())` when an
/// oracle failed (recorded in `o`).  A reader error ends the walk; the caller decides what it means.
pub fn read_back(plan: &[Vec<Vec<Entry>>], opts: &LogOptions, path: &std::path::Path, o: &mut Outcome) -> Result<ReadBack, ()> {
    let mut it = match LogIterator::new(opts.clone(), path) {
        Ok(it) => it,
        Err(e) => {
            o.fail("conc-read-error", format!("cannot open the sealed log: {e:?}"));
            return Err(());
        }
    };
    let mut order: Vec<(usize, usize)> = vec![];
    let mut cur: Option<(usize, usize, usize)> = None; // (t, s, next e)
    let mut nread = 0usize;
    let mut error = None;
    loop {
        match it.next() {
            Ok(Some(kv)) => {
                nread += 1;
                let Some((t, s, e)) = parse_key(kv.key) else {
                    o.fail("conc-foreign-entry", format!("entry #{nread} has key {} which no thread wrote", vcore::gens::show(kv.key)));
                    return Err(());
                };
                let Some(exp) = plan.get(t).and_then(|p| p.get(s)).and_then(|b| b.get(e)) else {
                    o.fail("conc-foreign-entry", format!("entry #{nread} is tagged thread {t} batch {s} entry {e}, which was never appended"));
                    return Err(());
                };
                if kv.key != &exp.key[..] || kv.timestamp != exp.ts || kv.value != exp.val.as_deref() {
                    o.fail("conc-entry-differs", format!("entry {e} of batch {s} of thread {t} reads back with different content (value {:?} bytes, appended {:?} bytes)", kv.value.map(|v| v.len()), exp.val.as_ref().map(|v| v.len())));
                    return Err(());
                }
                match cur {
                    Some((ct, cs, ne)) if e != 0 => {
                        if (ct, cs, ne) != (t, s, e) {
                            o.fail("conc-batch-torn", format!("entry {e} of batch {s} of thread {t} follows entry {} of batch {cs} of thread {ct}: a batch is not contiguous", ne as i64 - 1));
                            return Err(());
                        }
                        cur = Some((t, s, e + 1));
                    }
                    _ => {
                        if e != 0 {
                            o.fail("conc-batch-torn", format!("the log starts a batch with entry {e} of batch {s} of thread {t}"));
                            return Err(());
                        }
                        if let Some((ct, cs, ne)) = cur {
                            if ne != plan[ct][cs].len() {
                                o.fail("conc-batch-torn", format!("batch {cs} of thread {ct} stops after {ne} of {} entries", plan[ct][cs].len()));
                                return Err(());
                            }
                        }
                        order.push((t, s));
                        cur = Some((t, s, 1));
                    }
                }
            }
            Ok(None) => break,
            Err(e) => {
                error = Some(vcore::truncate(&format!("{e:?}"), 300));
                break;
            }
        }
    }
    if let Some((ct, cs, ne)) = cur {
        if ne != plan[ct][cs].len() {
            o.fail("conc-batch-torn", format!("batch {cs} of thread {ct} (the last one read) has {ne} of {} entries", plan[ct][cs].len()));
            return Err(());
        }
    }
    Ok(ReadBack { order, entries: nread, error })
}

/// Assign the batches (in file order) to the frame groups by payload size.  `Err` names the group
/// whose payload is not the sum of consecutive whole batches.  Returns (group of each batch,
/// members of each group, number of batches assigned).
#[allow(clippy::type_complexity)]
pub fn assign_groups(groups: &[Group], order: &[(usize, usize)], payload: &[Vec<u64>]) -> Result<(BTreeMap<(usize, usize), usize>, Vec<Vec<(usize, usize)>>, usize), (usize, u64)> {
    let mut group_of: BTreeMap<(usize, usize), usize> = BTreeMap::new();
    let mut members: Vec<Vec<(usize, usize)>> = vec![];
    let mut k = 0usize;
    for (gi, g) in groups.iter().enumerate() {
        let mut acc = 0u64;
        let mut m = vec![];
        while acc < g.payload && k < order.len() {
            let (t, s) = order[k];
            acc += payload[t][s];
            group_of.insert((t, s), gi);
            m.push((t, s));
            k += 1;
        }
        if acc != g.payload {
            return Err((gi, acc));
        }
        members.push(m);
    }
    Ok((group_of, members, k))
}

fn judge(c: &ConcCase, d: &Driven, o: &mut Outcome) {
    let Driven { plan, payload, recs, path, pile_established, writes, syncs, shim_len, odd, write_trace, .. } = d;
    let (pile_established, writes, syncs, shim_len, odd) = (*pile_established, *writes, *syncs, *shim_len, *odd);
    let nt = c.threads.len();
    let total_batches: usize = plan.iter().map(|t| t.len()).sum();
    let mut refused: std::collections::BTreeSet<(usize, usize)> = Default::default();
    // 1. every append (up to the documented maximum size) succeeded
    for (t, rs) in recs.iter().enumerate() {
        if rs.len() != plan[t].len() {
            o.inconclusive = true;
            o.label("harness: a thread returned fewer records than batches");
            return;
        }
        for (s, r) in rs.iter().enumerate() {
            if let Some(e) = &r.err {
                // acceptance is demanded up to the smallest documented maximum only; a larger batch
                // that was refused need not be in the log
                if payload[t][s] > MUST_ACCEPT {
                    refused.insert((t, s));
                    continue;
                }
                o.fail("conc-append-error", format!("append of batch {s} of thread {t} ({} payload bytes) failed: {e}", payload[t][s]));
                return;
            }
        }
    }
    if !refused.is_empty() {
        o.label("refused-above-documented-maximum:append");
    }
    for (i, f) in d.fsyncs.iter().enumerate() {
        if let Some(e) = &f.err {
            o.fail("conc-fsync-error", format!("call #{i} of ConcurrentLogBuilder::fsync failed although no system call failed: {e}"));
            return;
        }
    }
    let setsum = match &d.sealed {
        Ok(s) => *s,
        Err(e) => {
            o.fail("conc-seal-failed", format!("seal failed after {total_batches} successful appends: {e}"));
            return;
        }
    };
    let bytes = match std::fs::read(path) {
        Ok(b) => b,
        Err(e) => {
            o.inconclusive = true;
            o.label(format!("harness: cannot read the log back: {e}"));
            return;
        }
    };
    if odd > 0 || shim_len != bytes.len() as u64 {
        o.inconclusive = true;
        o.label(format!("harness: the shim saw {shim_len} bytes ({odd} short or failed writes), the file has {}", bytes.len()));
        return;
    }
    // 2. layout: the frame format is parsed independently (needed to say where a batch ends in the
    // file); if the parser can not follow the file, that is recorded and the checks that need
    // offsets are skipped.  The writer's placement decisions are recorded, not judged.
    let groups: Option<Vec<Group>> = match parse_frames(&bytes).and_then(|f| group_frames(&f)) {
        Ok(g) => Some(g),
        Err(_) => {
            o.label("layout:independent-parser-can-not-follow-the-file");
            None
        }
    };
    if let Some(g) = &groups {
        o.label(if check_placement(g).is_ok() { "layout:placement-as-documented" } else { "layout:placement-differs-from-the-documented-rule" });
    }
    // 3. entries, through the path-based reader
    let Ok(rb) = read_back(plan, &d.opts, path, o) else { return };
    if let Some(e) = &rb.error {
        o.fail("conc-read-error", format!("reading the sealed log fails after {} entries: {e}", rb.entries));
        return;
    }
    let order = rb.order;
    // 4. exactly once, per-thread order
    let mut pos: BTreeMap<(usize, usize), usize> = BTreeMap::new();
    for (i, b) in order.iter().enumerate() {
        if let Some(j) = pos.insert(*b, i) {
            o.fail("conc-batch-duplicated", format!("batch {} of thread {} occurs twice in the file (positions {j} and {i})", b.1, b.0));
            return;
        }
    }
    for (t, p) in plan.iter().enumerate() {
        let mut last: Option<(usize, usize)> = None;
        for s in 0..p.len() {
            let Some(i) = pos.get(&(t, s)).copied() else {
                if refused.contains(&(t, s)) {
                    continue;
                }
                o.fail("conc-batch-missing", format!("batch {s} of thread {t} is not in the file although its append returned Ok ({} of {total_batches} batches present)", order.len()));
                return;
            };
            if let Some((ls, li)) = last {
                if li > i {
                    o.fail("conc-thread-order", format!("thread {t}'s batch {s} precedes its batch {ls} in the file"));
                    return;
                }
            }
            last = Some((s, i));
        }
    }
    // 5. batches <-> frames.  Judged: no frame group may hold the end of one batch and part of
    // another (a cut behind it would show a partial batch).  How many batches share a group, or how
    // many groups a batch takes, is the writer's business.
    let in_order: Vec<u64> = order.iter().map(|(t, s)| payload[*t][*s]).collect();
    let ends: Option<BTreeMap<(usize, usize), u64>> = match &groups {
        Some(g) => match batch_ends(g, &in_order) {
            Ok(e) => Some(order.iter().copied().zip(e).collect()),
            Err(e) => {
                o.fail("conc-batch-straddles-frames", format!("the file written by {nt} threads reads back correctly but {e}"));
                return;
            }
        },
        None => None,
    };
    // (statistics and the coalescing labels need "a group = consecutive whole batches")
    let assigned = groups.as_ref().and_then(|g| assign_groups(g, &order, payload).ok()).filter(|(_, _, k)| *k == order.len());
    if let Some((gi, g)) = groups.iter().flatten().enumerate().find(|(_, g)| g.payload > BLOCK) {
        o.label("coalescing:a-frame-group-carries-more-than-1MiB");
        let _ = (gi, g);
    }
    // 6. durable at return
    match &ends {
        Some(ends) => {
            for (t, rs) in recs.iter().enumerate() {
                for (s, r) in rs.iter().enumerate() {
                    let Some(end) = ends.get(&(t, s)).copied() else { continue };
                    if r.err.is_some() {
                        continue;
                    }
                    if end > r.synced_at_return {
                        o.fail(
                            "conc-not-durable-at-return",
                            format!(
                                "append of batch {s} of thread {t} returned while only the first {} bytes of the file were covered by a completed fdatasync; the frame holding the batch's last byte ends at {end} ({} fdatasync calls and {} writes in the whole run)",
                                r.synced_at_return, syncs, writes
                            ),
                        );
                        return;
                    }
                }
            }
        }
        None => o.label("durability-not-judged(file-layout-not-followed)"),
    }
    // 7. real-time order: an append that returned before another one was called precedes it
    {
        let mut min_end_later: Option<(u64, (usize, usize))> = None;
        for &(t, s) in order.iter().rev() {
            let r = &recs[t][s];
            if let Some((e, (lt, ls))) = min_end_later {
                if e < r.start {
                    o.fail("conc-realtime-order", format!("batch {ls} of thread {lt} had been appended (call returned) before the append of batch {s} of thread {t} was called, yet it comes later in the file"));
                    return;
                }
            }
            if min_end_later.map(|(e, _)| r.end < e).unwrap_or(true) {
                min_end_later = Some((r.end, (t, s)));
            }
        }
    }
    // 8. setsum
    let mut want = sst::Setsum::default();
    for (t, th) in plan.iter().enumerate() {
        for (s, b) in th.iter().enumerate() {
            // (a refused over-size batch counts if, and only if, it is in the log)
            if !refused.contains(&(t, s)) || pos.contains_key(&(t, s)) {
                want += setsum_of(b);
            }
        }
    }
    if want != setsum {
        o.fail("conc-seal-setsum", format!("seal returned setsum {} but the appended entries sum to {}", setsum.hexdigest(), want.hexdigest()));
        return;
    }
    // 9. coalescing (performance, not part of the property): recorded only
    o.label(format!("mode:{:?}", c.mode));
    o.label(format!("threads:{nt}"));
    o.label(format!("batches:{}", bucket(total_batches as u64)));
    o.label(format!("fdatasyncs-per-append:{}", if syncs as usize >= total_batches { "1" } else if syncs as usize * 2 >= total_batches { ">=1/2" } else { "<1/2" }));
    conc_labels(c, d, o);
    for f in d.fsyncs.iter() {
        o.label(if f.synced_at_return >= f.len_before { "fsync():everything-written-before-the-call-synced-at-return" } else { "fsync():returned-while-bytes-written-before-the-call-were-unsynced" });
    }
    if pile_established && c.mode == Mode::PileupSync {
        o.label(if syncs > 2 { "pileup-sync:NOT-coalesced(more-than-one-further-fdatasync)" } else { "pileup-sync:one-fdatasync-for-all-waiters" });
    }
    if !pile_established && c.mode != Mode::Free {
        o.label("pileup-not-established");
    }
    let (Some(groups), Some((group_of, members, _))) = (&groups, &assigned) else {
        o.label("layout:frame-groups-are-not-runs-of-whole-batches(no-merge-statistics)");
        return;
    };
    let merged = members.iter().filter(|m| m.len() >= 2).count() as u64;
    let max_merge = members.iter().map(|m| m.len()).max().unwrap_or(0) as u64;
    if pile_established && c.mode == Mode::PileupWrite {
        let followers: u64 = (1..nt).map(|t| payload[t][0]).sum();
        let all_in = (1..nt).all(|t| group_of.contains_key(&(t, 0)));
        if followers <= BLOCK && all_in {
            let g1 = group_of[&(1, 0)];
            o.label(if (1..nt).any(|t| group_of[&(t, 0)] != g1) || members[g1].len() != nt - 1 { "pileup-write:NOT-coalesced(waiters<=1MiB-in-several-frame-groups)" } else { "pileup-write:merged-into-one-write" });
        } else {
            o.label("pileup-write:more-than-1MiB-waiting");
        }
        let d = followers as i64 - BLOCK as i64;
        if d.abs() <= 80 {
            o.label(format!("pileup-write:waiters-total:{}", match d {
                0 => "=1MiB".to_string(),
                -3..=-1 => "1MiB-1..3".to_string(),
                1..=3 => "1MiB+1..3".to_string(),
                x if x < 0 => "1MiB-4..80".to_string(),
                _ => "1MiB+4..80".to_string(),
            }));
        }
        if (1..nt).any(|t| payload[t][0] >= sst::MAX_BATCH_LEN as u64) && (1..nt).any(|t| payload[t][0] < 100) {
            o.label("pileup-write:maximal-batch-waits-with-a-tiny-one");
        }
    }
    o.label(format!("merged-writes:{}", bucket(merged)));
    o.label(format!("largest-merge:{}", bucket(max_merge)));
    if groups.iter().any(|g| g.split.is_some()) {
        o.label("split-frame");
    }
    if groups.iter().any(|g| g.split.is_none() && g.pad_before > 0) {
        o.label("padded-frame");
    }
    if write_trace.len() == groups.len() && write_trace.iter().zip(groups.iter()).all(|(w, g)| w.0 == g.start && w.0 + w.1 == g.end) {
        o.label("one-write-per-frame-group");
    } else {
        o.label("writes-differ-from-frame-groups");
    }
    if members.iter().zip(groups.iter()).any(|(m, g)| m.len() >= 2 && g.split.is_some()) {
        o.label("merged-and-split");
    }
    if members.iter().zip(groups.iter()).any(|(m, g)| m.len() >= 2 && g.payload == BLOCK) {
        o.label("merged-write-of-exactly-1MiB");
    }
    o.nontrivial = merged >= 1;
}

/// Labels that describe how the case used the API.
pub fn conc_labels(c: &ConcCase, d: &Driven, o: &mut Outcome) {
    o.label(match &c.ctor {
        Ctor::FromWrite => "ctor:from_write".to_string(),
        Ctor::New => "ctor:new(path)".to_string(),
        Ctor::FromBuilder { prefill, flush } => format!("ctor:from_builder:{}:{}", if prefill.is_empty() { "empty" } else { "non-empty" }, if *flush { "flushed" } else { "buffered" }),
    });
    c.opts.labels(o);
    let shapes = c.threads.iter().flat_map(|t| t.batches.iter());
    let mut seen = std::collections::BTreeSet::new();
    for b in shapes {
        if b.single {
            seen.insert(if b.tomb { "call:del" } else { "call:put" });
        } else {
            seen.insert(match b.via {
                Via::PutDel => "batch-via:put/del",
                Via::Insert => "batch-via:insert",
                Via::Merge => "batch-via:merge",
                Via::Mixed => "batch-via:insert+put/del+merge",
            });
        }
    }
    for p in d.payload.iter().flatten() {
        if *p == BLOCK {
            seen.insert("batch-payload:1MiB");
        } else if *p >= sst::log::MAX_BATCH_SIZE {
            seen.insert("batch-payload:>=MAX_BATCH_SIZE");
        } else if *p >= sst::MAX_BATCH_LEN as u64 {
            seen.insert("batch-payload:>=MAX_BATCH_LEN");
        }
    }
    if !d.fsyncs.is_empty() {
        seen.insert("call:fsync");
    }
    for (t, th) in c.threads.iter().enumerate() {
        for (s, b) in th.batches.iter().enumerate() {
            if let (Some(p), false) = (b.exact, b.single) {
                if d.payload[t][s] != p as u64 {
                    seen.insert("exact-size-plan-missed");
                }
            }
        }
    }
    for l in seen {
        o.label(l);
    }
}

pub struct Concurrent;

impl Property for Concurrent {
    type Case = ConcCase;
    fn name(&self) -> String {
        "concurrent-append".into()
    }
    fn cases(&self, tier: Tier) -> u64 {
        tier.pick(230, 2800)
    }
    fn max_shrink_iters(&self) -> u32 {
        60
    }
    fn record_current(&self) -> bool {
        true
    }
    fn strategy(&self, ctx: &Ctx) -> BoxedStrategy<ConcCase> {
        strategy(ctx.tier)
    }
    fn run(&self, ctx: &Ctx, c: &ConcCase) -> Outcome {
        let n = if ctx.strict || ctx.replay { 20 } else { 1 };
        let mut last = Outcome::pass();
        for _ in 0..n {
            last = run_once(ctx, c);
            if last.failed() || last.inconclusive {
                break;
            }
        }
        last
    }
}
