//! Shapes -> batches, the size arithmetic of entries and frame headers, and the harness's own
//! statement of the log's frame layout (an independent frame parser).

use proptest::prelude::*;
use serde::{Deserialize, Serialize};

use sst::Builder;
use sst::log::WriteBatch;

pub const BLOCK: u64 = 1 << 20;
pub const HMAX: u64 = sst::log::HEADER_MAX_SIZE;
pub const MAX_VALUE: usize = sst::MAX_VALUE_LEN;
pub const MAX_KEY: usize = sst::MAX_KEY_LEN;

pub fn next_boundary(off: u64) -> u64 {
    ((off >> 20) + 1) << 20
}

/////////////////////////////////////////////// entries ////////////////////////////////////////////

#[derive(Clone, Debug, PartialEq, Eq)]
pub struct Entry {
    pub key: Vec<u8>,
    pub ts: u64,
    pub val: Option<Vec<u8>>,
}

/// The shape of one entry; the bytes are derived from a tag.
#[derive(Clone, Debug, Serialize, Deserialize)]
pub struct EntryShape {
    pub klen: u16,
    pub ts: u64,
    /// None = tombstone
    pub vlen: Option<u32>,
    /// 0 pseudo-random bytes, 1 zeros (looks like padding), 2 0xff, 3 repeated image of a valid
    /// frame header (header of an empty WHOLE frame with a matching CRC)
    pub fill: u8,
}

pub fn fill_bytes(n: usize, seed: u64, mode: u8) -> Vec<u8> {
    let mut v = Vec::with_capacity(n);
    match mode % 4 {
        1 => v.resize(n, 0),
        2 => v.resize(n, 0xff),
        3 => {
            const IMG: [u8; 10] = [9, 80, 0, 88, 1, 101, 0, 0, 0, 0];
            while v.len() < n {
                let take = (n - v.len()).min(IMG.len());
                v.extend_from_slice(&IMG[..take]);
            }
        }
        _ => {
            let mut x = vcore::mix(seed) | 1;
            while v.len() + 8 <= n {
                x = x.wrapping_mul(6364136223846793005).wrapping_add(1442695040888963407);
                v.extend_from_slice(&(x ^ (x >> 29)).to_le_bytes());
            }
            while v.len() < n {
                x = x.wrapping_mul(6364136223846793005).wrapping_add(1442695040888963407);
                v.push((x >> 56) as u8);
            }
        }
    }
    v
}

pub fn make_entry(tag: u64, s: &EntryShape) -> Entry {
    Entry {
        key: fill_bytes(s.klen as usize, tag ^ 0x6b65_79, if s.fill == 1 { 1 } else { 0 }),
        ts: s.ts,
        val: s.vlen.map(|n| fill_bytes(n as usize, tag ^ 0x7661_6c, s.fill)),
    }
}

/// Build the real write batch of some entries.  `Err` carries the error of the first rejected entry.
pub fn make_batch(entries: &[Entry]) -> Result<WriteBatch, sst::SError> {
    let mut wb = WriteBatch::default();
    for e in entries {
        match &e.val {
            Some(v) => wb.put(&e.key, e.ts, v)?,
            None => wb.del(&e.key, e.ts)?,
        }
    }
    Ok(wb)
}

/// How a write batch is put together.
#[derive(Clone, Copy, Debug, Default, PartialEq, Eq, Serialize, Deserialize)]
pub enum Via {
    /// `WriteBatch::put` / `del` per entry
    #[default]
    PutDel,
    /// `WriteBatch::insert(KeyValueRef)` per entry
    Insert,
    /// two halves built with put / del, the second merged into the first with `WriteBatch::merge`
    /// (a one-entry batch is merged into an empty one)
    Merge,
    /// every second entry through `insert`, and the whole merged into an empty batch
    Mixed,
}

pub fn via_strategy() -> impl Strategy<Value = Via> {
    prop_oneof![5 => Just(Via::PutDel), 2 => Just(Via::Insert), 2 => Just(Via::Merge), 1 => Just(Via::Mixed)]
}

fn insert_entry(wb: &mut WriteBatch, e: &Entry) -> Result<(), sst::SError> {
    wb.insert(sst::KeyValueRef { key: &e.key, timestamp: e.ts, value: e.val.as_deref() })
}

/// The same batch as `make_batch`, built through the other public calls of `WriteBatch`.
pub fn make_batch_via(entries: &[Entry], via: Via) -> Result<WriteBatch, sst::SError> {
    match via {
        Via::PutDel => make_batch(entries),
        Via::Insert => {
            let mut wb = WriteBatch::default();
            for e in entries {
                insert_entry(&mut wb, e)?;
            }
            Ok(wb)
        }
        Via::Merge => {
            let mid = entries.len() / 2;
            let mut a = make_batch(&entries[..mid])?;
            let b = make_batch(&entries[mid..])?;
            a.merge(&b)?;
            Ok(a)
        }
        Via::Mixed => {
            let mut inner = WriteBatch::default();
            for (i, e) in entries.iter().enumerate() {
                if i % 2 == 0 {
                    insert_entry(&mut inner, e)?;
                } else {
                    match &e.val {
                        Some(v) => inner.put(&e.key, e.ts, v)?,
                        None => inner.del(&e.key, e.ts)?,
                    }
                }
            }
            let mut wb = WriteBatch::default();
            wb.merge(&inner)?;
            Ok(wb)
        }
    }
}

pub fn setsum_of(entries: &[Entry]) -> sst::Setsum {
    let mut s = sst::Setsum::default();
    for e in entries {
        match &e.val {
            Some(v) => s.put(&e.key, e.ts, v),
            None => s.del(&e.key, e.ts),
        }
    }
    s
}

////////////////////////////////////////////// sizes ///////////////////////////////////////////////

pub fn vl(mut x: u64) -> usize {
    let mut n = 1;
    while x >= 128 {
        x >>= 7;
        n += 1;
    }
    n
}

/// Encoded size of one entry inside a write batch (measured layout: tag, length, `shared`=0,
/// key_frag, timestamp, value).
pub fn entry_size(klen: usize, ts: u64, vlen: Option<usize>) -> usize {
    let mut body = 2 + 1 + vl(klen as u64) + klen + 1 + vl(ts);
    if let Some(v) = vlen {
        body += 1 + vl(v as u64) + v;
    }
    1 + vl(body as u64) + body
}

/// Length of a frame header (size byte included) for a payload of `p` bytes.
pub fn header_len(p: usize) -> usize {
    1 + 1 + vl(p as u64) + 2 + 5
}

/// Payload whose whole frame (header + payload) is exactly `frame` bytes long, if one exists.
pub fn payload_for_frame(frame: usize) -> Option<usize> {
    for h in [10usize, 11, 12, 13] {
        if frame > h {
            let p = frame - h;
            if header_len(p) == h {
                return Some(p);
            }
        }
    }
    None
}

fn solve_one(size: usize, ts: u64, fill: u8) -> Option<EntryShape> {
    // a put whose value absorbs the size
    for klen in [8usize, 9, 10, 11, 0, 1, 2, 3] {
        let base = entry_size(klen, ts, Some(0));
        if size < base {
            continue;
        }
        let guess = size - base;
        for v in guess.saturating_sub(8)..=guess {
            if v <= MAX_VALUE && entry_size(klen, ts, Some(v)) == size {
                return Some(EntryShape { klen: klen as u16, ts, vlen: Some(v as u32), fill });
            }
        }
    }
    // a tombstone whose key absorbs the size
    let base = entry_size(0, ts, None);
    if size >= base {
        let guess = size - base;
        for k in guess.saturating_sub(8)..=guess {
            if k <= MAX_KEY && entry_size(k, ts, None) == size {
                return Some(EntryShape { klen: k as u16, ts, vlen: None, fill });
            }
        }
    }
    None
}

/// Shapes whose batch payload is exactly `target` bytes: `lead` (already chosen) entries first,
/// then as few further entries as possible.
pub fn plan_exact(target: usize, lead: &[EntryShape], ts: u64, fill: u8) -> Option<Vec<EntryShape>> {
    let mut out: Vec<EntryShape> = vec![];
    let mut rem = target;
    for s in lead {
        let sz = entry_size(s.klen as usize, s.ts, s.vlen.map(|v| v as usize));
        // keep room for a closing entry
        if sz + 64 <= rem {
            rem -= sz;
            out.push(s.clone());
        }
    }
    let max_e = entry_size(8, ts, Some(MAX_VALUE));
    while rem > max_e {
        let take = if rem - max_e >= 64 { max_e } else { max_e - 64 };
        let s = solve_one(take, ts, fill).or_else(|| solve_one(take - 1, ts, fill))?;
        rem -= entry_size(s.klen as usize, s.ts, s.vlen.map(|v| v as usize));
        out.push(s);
    }
    if let Some(s) = solve_one(rem, ts, fill) {
        out.push(s);
        return Some(out);
    }
    // two closing entries
    for small in 0..24usize {
        let first = entry_size(small, ts, None);
        if rem > first {
            if let Some(s) = solve_one(rem - first, ts, fill) {
                out.push(EntryShape { klen: small as u16, ts, vlen: None, fill });
                out.push(s);
                return Some(out);
            }
        }
    }
    None
}

pub fn shapes_size(shapes: &[EntryShape]) -> usize {
    shapes.iter().map(|s| entry_size(s.klen as usize, s.ts, s.vlen.map(|v| v as usize))).sum()
}

////////////////////////////////////////////// frames //////////////////////////////////////////////

pub const WHOLE: u32 = 1;
pub const FIRST: u32 = 2;
pub const SECOND: u32 = 3;

#[derive(Clone, Debug)]
pub struct Frame {
    pub start: u64,
    pub hdr_len: u64,
    pub size: u64,
    pub disc: u32,
    #[allow(dead_code)]
    pub crc: u32,
    /// offset one past the last payload byte
    pub end: u64,
    /// zero bytes that precede the frame (padding up to a block boundary)
    pub pad_before: u64,
}

/// One appended (possibly merged) batch as it lies in the file.
#[derive(Clone, Debug)]
pub struct Group {
    /// where the previous group ended (padding that precedes the frame belongs to this group)
    pub start: u64,
    pub end: u64,
    pub payload: u64,
    pub split: Option<(Frame, Frame)>,
    pub first_frame_start: u64,
    pub pad_before: u64,
}

fn parse_header(h: &[u8]) -> Result<(u64, u32, u32), String> {
    let (mut size, mut disc, mut crc) = (0u64, 0u32, 0u32);
    let mut i = 0;
    let varint = |i: &mut usize| -> Result<u64, String> {
        let mut x = 0u64;
        let mut shift = 0;
        loop {
            let b = *h.get(*i).ok_or("header varint runs past the header")?;
            *i += 1;
            x |= ((b & 0x7f) as u64) << shift;
            if b & 0x80 == 0 {
                return Ok(x);
            }
            shift += 7;
            if shift > 63 {
                return Err("header varint too long".into());
            }
        }
    };
    while i < h.len() {
        let tag = varint(&mut i)?;
        match (tag >> 3, tag & 7) {
            (10, 0) => size = varint(&mut i)?,
            (11, 0) => disc = varint(&mut i)? as u32,
            (12, 5) => {
                let b = h.get(i..i + 4).ok_or("header fixed32 runs past the header")?;
                crc = u32::from_le_bytes([b[0], b[1], b[2], b[3]]);
                i += 4;
            }
            (f, w) => return Err(format!("unexpected header field {f} wire type {w}")),
        }
    }
    Ok((size, disc, crc))
}

/// The documented layout: frames `[len][header][payload]`; a frame never starts less than
/// HEADER_MAX_SIZE bytes before a block boundary (zeros up to the boundary instead); a batch that
/// does not fit is split into a FIRST frame, zeros up to the boundary, and a SECOND frame; every
/// frame carries at least one payload byte.
pub fn parse_frames(b: &[u8]) -> Result<Vec<Frame>, String> {
    let (out, stop) = parse_frames_lenient(b);
    match stop {
        None => Ok(out),
        // zero bytes up to a block boundary at the very end are skipped by every reader
        Some((_, e)) if e == ENDS_WITH_PADDING => Ok(out),
        Some((_, e)) => Err(e),
    }
}

pub const ENDS_WITH_PADDING: &str = "file ends with padding";

/// The smallest documented maximum of a batch: up to this size a batch must be accepted.
pub const MUST_ACCEPT: u64 = if (sst::MAX_BATCH_LEN as u64) < sst::log::MAX_BATCH_SIZE { sst::MAX_BATCH_LEN as u64 } else { sst::log::MAX_BATCH_SIZE };

/// The file offset at which each batch (given by its payload size, in file order) is complete: the
/// end of the frame group that holds its last byte.  `Err` when a frame group ends strictly inside a
/// batch while holding the end of the batch before it (then some cut shows a partial batch).
/// Several batches in one group and several groups for one batch are both possible.
pub fn batch_ends(groups: &[Group], payloads: &[u64]) -> Result<Vec<u64>, String> {
    // batch boundaries in the payload stream
    let mut bounds = std::collections::BTreeSet::new();
    let mut psum = 0u64;
    bounds.insert(0u64);
    for p in payloads {
        psum += p;
        bounds.insert(psum);
    }
    // a group that holds bytes of more than one batch must hold whole batches only
    let mut gsum = 0u64;
    let mut gends: Vec<(u64, u64)> = vec![]; // (payload offset after the group, file offset after it)
    for (gi, g) in groups.iter().enumerate() {
        let (a, b) = (gsum, gsum + g.payload);
        if g.payload >= 2 && bounds.range(a + 1..b).next().is_some() && !(bounds.contains(&a) && bounds.contains(&b)) {
            return Err(format!("frame group #{gi} (payload bytes {a}..{b} of the log) holds the end of one batch and part of another"));
        }
        gsum = b;
        gends.push((b, g.end));
    }
    if gsum != psum {
        return Err(format!("the frames hold {gsum} payload bytes, the appended batches {psum}"));
    }
    let mut ends = Vec::with_capacity(payloads.len());
    let mut acc = 0u64;
    for p in payloads {
        acc += p;
        let k = gends.partition_point(|(po, _)| *po < acc);
        ends.push(gends.get(k).map(|(_, fo)| *fo).unwrap_or(0));
    }
    Ok(ends)
}

/// The frames of the longest well-formed prefix, and where / why parsing stopped (None = the whole
/// image is well formed).
pub fn parse_frames_lenient(b: &[u8]) -> (Vec<Frame>, Option<(u64, String)>) {
    let mut out = vec![];
    let mut pos = 0usize;
    let mut pad = 0u64;
    let mut pad_from = 0usize;
    macro_rules! stop {
        ($at:expr, $($m:tt)*) => {
            return (out, Some(($at as u64, format!($($m)*))))
        };
    }
    while pos < b.len() {
        let hs = b[pos] as usize;
        if hs == 0 {
            let nb = if (pos as u64 + 1) % BLOCK == 0 { pos + 1 } else { next_boundary(pos as u64 + 1) as usize };
            if nb > b.len() {
                stop!(pos, "padding at {pos} runs past the end of the file");
            }
            if nb - pos > HMAX as usize {
                stop!(pos, "padding of {} bytes at {pos} exceeds HEADER_MAX_SIZE", nb - pos);
            }
            if b[pos..nb].iter().any(|x| *x != 0) {
                stop!(pos, "padding at {pos}..{nb} is not all zero");
            }
            if pad == 0 {
                pad_from = pos;
            }
            pad += (nb - pos) as u64;
            pos = nb;
            continue;
        }
        if hs as u64 > HMAX {
            stop!(pos, "header length {hs} at {pos} exceeds HEADER_MAX_SIZE");
        }
        let Some(h) = b.get(pos + 1..pos + 1 + hs) else { stop!(pos, "header at {pos} runs past the end") };
        let (size, disc, crc) = match parse_header(h) {
            Ok(x) => x,
            Err(e) => stop!(pos, "header at {pos}: {e}"),
        };
        let ps = pos + 1 + hs;
        let pe = ps.saturating_add(size as usize);
        let Some(payload) = b.get(ps..pe) else { stop!(pos, "frame at {pos} (size {size}) runs past the end") };
        if crc32c::crc32c(payload) != crc {
            stop!(pos, "frame at {pos}: crc mismatch");
        }
        if size == 0 {
            stop!(pos, "frame at {pos} (discriminant {disc}) carries no payload");
        }
        out.push(Frame { start: pos as u64, hdr_len: 1 + hs as u64, size, disc, crc, end: pe as u64, pad_before: pad });
        pad = 0;
        pos = pe;
    }
    if pad != 0 {
        stop!(pad_from, "{ENDS_WITH_PADDING}");
    }
    (out, None)
}

pub fn group_frames(frames: &[Frame]) -> Result<Vec<Group>, String> {
    let mut out: Vec<Group> = vec![];
    let mut i = 0;
    let mut prev_end = 0u64;
    while i < frames.len() {
        let f = &frames[i];
        match f.disc {
            WHOLE => {
                out.push(Group { start: prev_end, end: f.end, payload: f.size, split: None, first_frame_start: f.start, pad_before: f.pad_before });
                prev_end = f.end;
                i += 1;
            }
            FIRST => {
                let s = frames.get(i + 1).ok_or(format!("FIRST frame at {} is the last frame", f.start))?;
                if s.disc != SECOND {
                    return Err(format!("FIRST frame at {} is followed by discriminant {}", f.start, s.disc));
                }
                if s.start % BLOCK != 0 {
                    return Err(format!("SECOND frame at {} does not start on a block boundary", s.start));
                }
                out.push(Group { start: prev_end, end: s.end, payload: f.size + s.size, split: Some((f.clone(), s.clone())), first_frame_start: f.start, pad_before: f.pad_before });
                prev_end = s.end;
                i += 2;
            }
            d => return Err(format!("frame at {} has discriminant {d} where WHOLE or FIRST is expected", f.start)),
        }
    }
    Ok(out)
}

/// Where `_append` must put a batch of `p` payload bytes when the log is `start` bytes long:
/// (zero padding written first, size of the FIRST part if the batch is split).
pub fn expected_placement(start: u64, p: u64) -> (u64, Option<u64>) {
    let whole = header_len(p as usize) as u64 + p;
    let room = next_boundary(start) - start;
    if whole <= room {
        (0, None)
    } else if room <= HMAX {
        let (pad, first) = expected_placement(start + room, p);
        (room + pad, first)
    } else {
        (0, Some(room - HMAX))
    }
}

/// The writer's documented decisions: a batch that fits into the current block is one WHOLE frame;
/// if at most HEADER_MAX_SIZE bytes are left the block is padded with zeros and the batch starts
/// on the boundary; otherwise it is split so that the FIRST frame's payload ends HEADER_MAX_SIZE
/// bytes (less its own header) before the boundary.
pub fn check_placement(groups: &[Group]) -> Result<(), String> {
    for (i, g) in groups.iter().enumerate() {
        let (pad, first) = expected_placement(g.start, g.payload);
        let got_first = g.split.as_ref().map(|(f, _)| f.size);
        if g.pad_before != pad || got_first != first || g.first_frame_start != g.start + pad {
            let show = |pad: u64, first: Option<u64>| match first {
                Some(n) => format!("{pad} bytes of padding, then split with {n} bytes in the first frame"),
                None => format!("{pad} bytes of padding, then one whole frame"),
            };
            return Err(format!(
                "batch #{i} ({} payload bytes, appended at offset {} = {} bytes before the boundary) is laid out as [{}]; the documented rule gives [{}]",
                g.payload,
                g.start,
                next_boundary(g.start) - g.start,
                show(g.pad_before, got_first),
                show(pad, first)
            ));
        }
    }
    Ok(())
}

////////////////////////////////////////////// options /////////////////////////////////////////////

/// The fields of `LogOptions` that differ from the default (the fields are crate-private; the
/// options are built through the crate's command-line parser, the way every binary sets them).
#[derive(Clone, Debug, Default, PartialEq, Eq, Serialize, Deserialize)]
pub struct OptShape {
    #[serde(default)]
    pub write_buffer: Option<u32>,
    #[serde(default)]
    pub read_buffer: Option<u32>,
    #[serde(default)]
    pub rollover_size: Option<u32>,
}

impl OptShape {
    pub fn build(&self) -> sst::log::LogOptions {
        use arrrg::CommandLine;
        let mut args: Vec<String> = vec![];
        if let Some(w) = self.write_buffer {
            args.push("--write-buffer".into());
            args.push(w.to_string());
        }
        if let Some(r) = self.read_buffer {
            args.push("--read-buffer".into());
            args.push(r.to_string());
        }
        if let Some(r) = self.rollover_size {
            args.push("--rollover-size".into());
            args.push(r.to_string());
        }
        if args.is_empty() {
            return sst::log::LogOptions::default();
        }
        let refs: Vec<&str> = args.iter().map(|s| s.as_str()).collect();
        let (opts, free) = sst::log::LogOptions::from_arguments_relaxed("c12", &refs);
        assert!(free.is_empty(), "unparsed log options: {free:?}");
        opts
    }

    pub fn labels(&self, o: &mut vcore::Outcome) {
        let class = |b: u32| match b as u64 {
            0 => "0",
            1 => "1",
            2..=17 => "2-17",
            18..=21 => "18-21(header-sized)",
            22..=4095 => "22-4095",
            4096..=1_048_574 => "4KiB-1MiB",
            1_048_575..=1_048_577 => "1MiB+-1",
            1_048_578..=2_097_150 => "1MiB-2MiB",
            2_097_151..=2_097_153 => "2MiB+-1",
            _ => ">2MiB",
        };
        o.label(format!("opts:write-buffer:{}", self.write_buffer.map(class).unwrap_or("default")));
        o.label(format!("opts:read-buffer:{}", self.read_buffer.map(class).unwrap_or("default")));
    }
}

pub fn buffer_size() -> impl Strategy<Value = Option<u32>> {
    prop_oneof![
        6 => Just(None),
        1 => Just(Some(0u32)),
        2 => Just(Some(1u32)),
        1 => (2u32..18).prop_map(Some),
        2 => (18u32..22).prop_map(Some),
        1 => (22u32..4096).prop_map(Some),
        2 => Just(Some(4096u32)),
        1 => (4097u32..1_048_575).prop_map(Some),
        2 => (1_048_575u32..1_048_578).prop_map(Some),
        1 => (1_048_578u32..2_097_151).prop_map(Some),
        1 => (2_097_151u32..2_097_154).prop_map(Some),
        1 => Just(Some(4_194_304u32)),
    ]
}

/// Read and write buffer sizes (the roll-over size is varied by its own generator).
pub fn opt_shape() -> impl Strategy<Value = OptShape> {
    prop_oneof![
        2 => Just(OptShape::default()),
        3 => (buffer_size(), buffer_size()).prop_map(|(write_buffer, read_buffer)| OptShape { write_buffer, read_buffer, rollover_size: None }),
    ]
}

/////////////////////////////////////// exact sizes, tagged keys ///////////////////////////////////

/// Key length and timestamp of the entries of the concurrent parts' exactly sized batches.
pub const TAGGED_KLEN: usize = 12;
pub const TAGGED_TS: u64 = 1;

fn solve_tagged(size: usize) -> Option<Option<usize>> {
    if size == entry_size(TAGGED_KLEN, TAGGED_TS, None) {
        return Some(None);
    }
    let base = entry_size(TAGGED_KLEN, TAGGED_TS, Some(0));
    if size < base {
        return None;
    }
    let guess = size - base;
    (guess.saturating_sub(8)..=guess).find(|v| *v <= MAX_VALUE && entry_size(TAGGED_KLEN, TAGGED_TS, Some(*v)) == size).map(Some)
}

/// Value lengths (None = tombstone) of entries with 12-byte keys and timestamp 1 whose batch payload
/// is exactly `target` bytes.
pub fn plan_exact_tagged(target: usize) -> Option<Vec<Option<usize>>> {
    let max_e = entry_size(TAGGED_KLEN, TAGGED_TS, Some(MAX_VALUE));
    let mut out = vec![];
    let mut rem = target;
    while rem > max_e {
        // leave at least 64 bytes for the closing entries
        let take = if rem - max_e >= 64 { max_e } else { max_e - 64 };
        let v = solve_tagged(take).or_else(|| solve_tagged(take - 1))?;
        rem -= entry_size(TAGGED_KLEN, TAGGED_TS, v);
        out.push(v);
    }
    if let Some(v) = solve_tagged(rem) {
        out.push(v);
        return Some(out);
    }
    let tomb = entry_size(TAGGED_KLEN, TAGGED_TS, None);
    for first in std::iter::once(tomb).chain((0..12).map(|v| entry_size(TAGGED_KLEN, TAGGED_TS, Some(v)))) {
        if rem > first {
            if let (Some(a), Some(b)) = (solve_tagged(first), solve_tagged(rem - first)) {
                out.push(a);
                out.push(b);
                return Some(out);
            }
        }
    }
    None
}

/////////////////////////////////////////// strategies /////////////////////////////////////////////

pub fn ts_strategy() -> impl Strategy<Value = u64> {
    prop_oneof![
        3 => Just(1u64),
        1 => Just(0u64),
        1 => Just(127u64),
        1 => Just(128u64),
        1 => Just(u64::MAX),
        1 => Just(1u64 << 32),
        2 => any::<u64>(),
        2 => 0u64..100_000,
    ]
}

pub fn small_shape() -> impl Strategy<Value = EntryShape> {
    let klen = prop_oneof![
        2 => Just(0u16),
        2 => Just(1u16),
        4 => 2u16..40,
        1 => Just(127u16),
        1 => Just(128u16),
        1 => 129u16..600,
    ];
    let vlen = prop_oneof![
        3 => Just(None),
        2 => Just(Some(0u32)),
        2 => Just(Some(1u32)),
        5 => (2u32..200).prop_map(Some),
        1 => Just(Some(127u32)),
        1 => Just(Some(128u32)),
        2 => (200u32..5000).prop_map(Some),
    ];
    (klen, ts_strategy(), vlen, 0u8..4).prop_map(|(klen, ts, vlen, fill)| EntryShape { klen, ts, vlen, fill })
}

pub fn any_shape() -> impl Strategy<Value = EntryShape> {
    let big = (
        prop_oneof![Just(0u16), 1u16..64, Just(16383u16), Just(16384u16)],
        ts_strategy(),
        prop_oneof![
            Just(None),
            Just(Some(16383u32)),
            Just(Some(16384u32)),
            Just(Some(32767u32)),
            Just(Some(32768u32)),
            (5000u32..32768).prop_map(Some)
        ],
        0u8..4,
    )
        .prop_map(|(klen, ts, vlen, fill)| EntryShape { klen, ts, vlen, fill });
    prop_oneof![8 => small_shape(), 1 => big]
}
