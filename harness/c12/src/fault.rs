//! Part 5: `write` / `fdatasync` FAILURES injected into `ConcurrentLogBuilder<File>` and into the
//! sequential `LogBuilder<File>`.
//!
//! The durability clause read for the failure path:
//!   * an append that is acknowledged (concurrent builder: `append` / `put` / `del` returned Ok;
//!     sequential builder: `append` returned Ok and a later `fsync()` returned Ok) has its batch
//!     wholly in the file, inside well-formed frames, and the file length that was covered by a
//!     SUCCESSFUL data sync when the acknowledgement was given includes the batch's last byte.  An
//!     append whose write or whose covering sync failed therefore can not be acknowledged, whichever
//!     thread of a merged write / coalesced sync it belongs to;
//!   * no call fails unless a system call failed before it returned;
//!   * nothing panics;
//!   * reading the file afterwards yields every acknowledged batch exactly once and whole, in
//!     per-thread order, possibly with unacknowledged batches in between, never a partial, changed or
//!     foreign batch; the reader may stop with an error (a torn tail) only after every acknowledged
//!     batch has been read.
//! Which error is returned, and whether the builder refuses work after a failure, is not prescribed
//! (since /repo 74f18ab a `LogBuilder` refuses everything after a failed write or flush; finding
//! C12-B, regressions/C12/C12-B-*.json).

use std::collections::BTreeMap;
use std::os::fd::AsRawFd;
use std::sync::atomic::Ordering;

use proptest::prelude::*;
use serde::{Deserialize, Serialize};

use sst::Builder;
use sst::log::{LogBuilder, LogOptions};
use vcore::gens::sel;
use vcore::{Ctx, Outcome, Property, Tier};

use crate::conc::{self, BatchShape, ConcCase, Mode};
use crate::model::*;
use crate::seq::bucket;
use crate::shim::{self, FaultEvent, FaultKind};

#[derive(Clone, Copy, Debug, PartialEq, Eq, Serialize, Deserialize)]
pub enum Errno {
    Eio,
    Enospc,
}

impl Errno {
    fn code(self) -> i32 {
        match self {
            Errno::Eio => libc::EIO,
            Errno::Enospc => libc::ENOSPC,
        }
    }
}

/// Fail the write calls `k .. k+count` on the log, where `k` is chosen by the selector `at` among
/// the calls the case is expected to make after the builder was constructed; `count` 255 = every
/// later call.  `short` != 0: call `at` writes a proper prefix
/// first and the failures begin with the call after it.
#[derive(Clone, Debug, Serialize, Deserialize)]
pub struct WriteFault {
    pub at: u16,
    pub count: u8,
    pub errno: Errno,
    pub short: u16,
}

#[derive(Clone, Debug, Serialize, Deserialize)]
pub struct SyncFault {
    pub at: u16,
    pub count: u8,
    pub errno: Errno,
}

#[derive(Clone, Debug, Default, Serialize, Deserialize)]
pub struct Faults {
    pub write: Option<WriteFault>,
    pub sync: Option<SyncFault>,
}

impl Faults {
    /// `w0` / `s0`: calls made so far; `wn` / `sn`: (an estimate of) the calls still to come.
    fn arm(&self, w0: u64, s0: u64, wn: usize, sn: usize) {
        let n = |c: u8| if c == 255 { u64::MAX } else { c.max(1) as u64 };
        if let Some(w) = &self.write {
            shim::set_write_fault(w0 + sel(w.at, wn.max(1)) as u64, n(w.count), w.errno.code(), w.short);
        }
        if let Some(s) = &self.sync {
            shim::set_sync_fault(s0 + sel(s.at, sn.max(1)) as u64, n(s.count), s.errno.code());
        }
    }
}

fn call_index() -> impl Strategy<Value = u16> {
    prop_oneof![1 => Just(0u16), 4 => any::<u16>()]
}

fn fault_count() -> impl Strategy<Value = u8> {
    prop_oneof![5 => Just(1u8), 2 => 2u8..4, 2 => Just(255u8)]
}

fn errno() -> impl Strategy<Value = Errno> {
    prop_oneof![Just(Errno::Eio), Just(Errno::Enospc)]
}

fn faults() -> BoxedStrategy<Faults> {
    let w = (call_index(), fault_count(), errno(), prop_oneof![3 => Just(0u16), 1 => Just(1u16), 2 => 1u16..=u16::MAX]).prop_map(|(at, count, errno, short)| WriteFault { at, count, errno, short }).boxed();
    let s = (call_index(), fault_count(), errno()).prop_map(|(at, count, errno)| SyncFault { at, count, errno }).boxed();
    prop_oneof![
        4 => w.clone().prop_map(|w| Faults { write: Some(w), sync: None }),
        4 => s.clone().prop_map(|s| Faults { write: None, sync: Some(s) }),
        1 => (w, s).prop_map(|(w, s)| Faults { write: Some(w), sync: Some(s) }),
    ]
    .boxed()
}

/// One step of a sequential program.
#[derive(Clone, Debug, Serialize, Deserialize)]
pub enum SeqOp {
    /// `LogBuilder::append`, or `LogBuilder::put` / `del` for a `single` shape
    Append(BatchShape),
    Flush,
    Fsync,
}

#[derive(Clone, Debug, Serialize, Deserialize)]
pub struct SeqProg {
    pub ops: Vec<SeqOp>,
    pub opts: OptShape,
    pub seed: u32,
    /// `LogBuilder::new(options, path)` instead of `from_write(options, File)`
    pub via_new: bool,
}

#[derive(Clone, Debug, Serialize, Deserialize)]
pub enum Target {
    Conc(ConcCase),
    Seq(SeqProg),
}

#[derive(Clone, Debug, Serialize, Deserialize)]
pub struct FaultCase {
    pub target: Target,
    pub faults: Faults,
}

fn seq_prog() -> BoxedStrategy<SeqProg> {
    let op = prop_oneof![6 => conc::batch_shape().prop_map(SeqOp::Append), 1 => Just(SeqOp::Flush), 3 => Just(SeqOp::Fsync)];
    (prop::collection::vec(op, 2..14), opt_shape(), any::<u32>(), any::<bool>())
        .prop_map(|(mut ops, opts, seed, via_new)| {
            // nothing is acknowledged without a final fsync
            ops.push(SeqOp::Fsync);
            SeqProg { ops, opts, seed, via_new }
        })
        .boxed()
}

///////////////////////////////////////////// judging //////////////////////////////////////////////

pub struct FRec {
    /// the call returned Ok
    pub ok: bool,
    /// `SYNCED` sampled when the batch was acknowledged as durable
    pub acked: Option<u64>,
    pub start: u64,
    pub end: u64,
    pub err: Option<String>,
}

pub struct FaultRun<'a> {
    pub what: &'static str,
    pub plan: &'a [Vec<Vec<Entry>>],
    pub payload: &'a [Vec<u64>],
    pub recs: Vec<Vec<FRec>>,
    pub opts: &'a LogOptions,
    pub path: &'a std::path::Path,
    pub faults: &'a [FaultEvent],
    pub shim_len: u64,
    pub odd: u64,
    /// other calls that failed: (what, response stamp, error)
    pub other_errors: Vec<(String, u64, String)>,
    /// write calls that succeeded after a write call had failed or been cut short, counted before
    /// the final `seal()` (evidence only)
    pub writes_after_failure: u64,
}

fn group_frames_lenient(frames: &[Frame]) -> (Vec<Group>, Option<String>) {
    // the longest prefix of the frames that groups (a FIRST frame at the very end is a torn tail)
    let mut n = frames.len();
    loop {
        match group_frames(&frames[..n]) {
            Ok(g) => return (g, if n == frames.len() { None } else { Some(format!("frame #{n} does not continue a well-formed sequence")) }),
            Err(_) if n > 0 => n -= 1,
            Err(e) => return (vec![], Some(e)),
        }
    }
}

pub fn judge(run: &FaultRun, o: &mut Outcome) {
    let FaultRun { what, plan, payload, recs, opts, path, faults, .. } = run;
    let first_fault = faults.iter().map(|f| f.stamp).min();
    let first_write_fault = faults.iter().filter(|f| f.kind != FaultKind::SyncFailed).map(|f| f.stamp).min();
    // no call fails unless a system call failed before it returned
    for (t, rs) in recs.iter().enumerate() {
        for (s, r) in rs.iter().enumerate() {
            if let Some(e) = &r.err {
                // (acceptance is demanded up to the smallest documented maximum only)
                if payload[t][s] > MUST_ACCEPT {
                    o.label("refused-above-documented-maximum:append");
                } else if first_fault.map(|f| f > r.end).unwrap_or(true) {
                    o.fail("error-without-a-failed-system-call", format!("{what}: append of batch {s} of thread {t} failed although no write or sync on the log had failed before it returned: {e}"));
                    return;
                }
            }
        }
    }
    for (w, end, e) in run.other_errors.iter() {
        if first_fault.map(|f| f > *end).unwrap_or(true) {
            o.fail("error-without-a-failed-system-call", format!("{what}: {w} failed although no write or sync on the log had failed before it returned: {e}"));
            return;
        }
    }
    let bytes = match std::fs::read(path) {
        Ok(b) => b,
        Err(e) => {
            o.inconclusive = true;
            o.label(format!("harness: cannot read the log back: {e}"));
            return;
        }
    };
    if run.odd > 0 || run.shim_len != bytes.len() as u64 {
        o.inconclusive = true;
        o.label(format!("harness: the shim saw {} bytes ({} unexpected short or failed writes), the file has {}", run.shim_len, run.odd, bytes.len()));
        return;
    }
    // the well-formed prefix of the file
    let (frames, stop) = parse_frames_lenient(&bytes);
    let (groups, gstop) = group_frames_lenient(&frames);
    let well_formed_to = groups.last().map(|g| g.end).unwrap_or(0);
    // what a reader gets
    let Ok(rb) = conc::read_back(plan, opts, path, o) else {
        o.nontrivial = true;
        return;
    };
    if let Some(e) = &rb.error {
        if first_write_fault.is_none() {
            o.fail("conc-read-error", format!("{what}: no write failed, yet reading the log fails after {} entries: {e}", rb.entries));
            return;
        }
    }
    let order = &rb.order;
    let mut pos: BTreeMap<(usize, usize), usize> = BTreeMap::new();
    for (i, b) in order.iter().enumerate() {
        if let Some(j) = pos.insert(*b, i) {
            o.fail("conc-batch-duplicated", format!("{what}: batch {} of thread {} occurs twice in the file (positions {j} and {i})", b.1, b.0));
            return;
        }
    }
    for (t, p) in plan.iter().enumerate() {
        let mut last: Option<(usize, usize)> = None;
        for s in 0..p.len() {
            if let Some(i) = pos.get(&(t, s)) {
                if let Some((ls, li)) = last {
                    if li > *i {
                        o.fail("conc-thread-order", format!("{what}: thread {t}'s batch {s} precedes its batch {ls} in the file"));
                        return;
                    }
                }
                last = Some((s, *i));
            }
        }
    }
    // batches <-> frame groups, as far as both go
    let mut group_of: BTreeMap<(usize, usize), usize> = BTreeMap::new();
    let mut members: Vec<Vec<(usize, usize)>> = vec![];
    let mut too_large = false;
    {
        let mut k = 0usize;
        'groups: for (gi, g) in groups.iter().enumerate() {
            let mut acc = 0u64;
            let mut m = vec![];
            while acc < g.payload && k < order.len() {
                let (t, s) = order[k];
                acc += payload[t][s];
                m.push((t, s));
                k += 1;
            }
            if acc != g.payload {
                if k < order.len() || acc > g.payload {
                    o.fail("conc-batch-straddles-frames", format!("{what}: frame group #{gi} carries {} payload bytes, which is not the sum of consecutive whole batches ({acc})", g.payload));
                    return;
                }
                // the reader stopped before this group
                break 'groups;
            }
            if g.payload > BLOCK {
                too_large = true;
            }
            for b in m.iter() {
                group_of.insert(*b, gi);
            }
            members.push(m);
        }
    }
    // acknowledged batches
    let describe_file = || {
        format!(
            "the file has {} bytes, well-formed frames up to byte {well_formed_to}{}; the reader yields {} batches and then {}; injected: {}",
            bytes.len(),
            stop.as_ref().map(|(at, e)| format!(" (then, at {at}: {e})")).or(gstop.clone().map(|e| format!(" ({e})"))).unwrap_or_default(),
            order.len(),
            rb.error.as_ref().map(|e| format!("fails with {}", vcore::truncate(e, 120))).unwrap_or("ends".into()),
            faults.iter().map(|f| format!("{:?}#{}@len{}", f.kind, f.idx, f.len_at)).collect::<Vec<_>>().join(" ")
        )
    };
    let (mut acked, mut acked_after_fault, mut failed, mut failed_present, mut unacked_ok) = (0u64, 0u64, 0u64, 0u64, 0u64);
    for (t, rs) in recs.iter().enumerate() {
        for (s, r) in rs.iter().enumerate() {
            if !r.ok {
                failed += 1;
                if pos.contains_key(&(t, s)) {
                    failed_present += 1;
                }
                continue;
            }
            let Some(synced) = r.acked else {
                unacked_ok += 1;
                continue;
            };
            acked += 1;
            if first_fault.map(|f| f < r.end).unwrap_or(false) {
                acked_after_fault += 1;
            }
            if !pos.contains_key(&(t, s)) {
                o.fail("acknowledged-batch-unreadable", format!("{what}: batch {s} of thread {t} ({} payload bytes) was acknowledged as durable, but reading the file does not yield it: {}", payload[t][s], describe_file()));
                return;
            }
            let Some(gi) = group_of.get(&(t, s)) else {
                o.fail("acknowledged-batch-outside-well-formed-frames", format!("{what}: batch {s} of thread {t} was acknowledged as durable, but it does not lie in the well-formed prefix of the file: {}", describe_file()));
                return;
            };
            let g = &groups[*gi];
            if g.end > synced {
                o.fail(
                    "acknowledged-but-not-durable",
                    format!(
                        "{what}: batch {s} of thread {t} was acknowledged while only the first {synced} bytes of the file were covered by a data sync that SUCCEEDED; the batch occupies bytes {}..{}: {}",
                        g.start,
                        g.end,
                        describe_file()
                    ),
                );
                return;
            }
        }
    }
    // real-time order among acknowledged batches
    {
        let mut min_end_later: Option<(u64, (usize, usize))> = None;
        for &(t, s) in order.iter().rev() {
            let r = &recs[t][s];
            if r.acked.is_none() {
                continue;
            }
            if let Some((e, (lt, ls))) = min_end_later {
                if e < r.start {
                    o.fail("conc-realtime-order", format!("{what}: batch {ls} of thread {lt} had been acknowledged before the append of batch {s} of thread {t} was called, yet it comes later in the file"));
                    return;
                }
            }
            if min_end_later.map(|(e, _)| r.end < e).unwrap_or(true) {
                min_end_later = Some((r.end, (t, s)));
            }
        }
    }
    // evidence
    let mut kinds = std::collections::BTreeSet::new();
    for f in faults.iter() {
        kinds.insert(match f.kind {
            FaultKind::WriteFailed => "fault:write-failed",
            FaultKind::WriteShort => "fault:short-write",
            FaultKind::SyncFailed => "fault:sync-failed",
        });
    }
    if faults.is_empty() {
        o.label("fault-not-reached");
    }
    for k in kinds {
        o.label(k);
    }
    if run.writes_after_failure > 0 {
        o.label("a-write-succeeded-after-a-failed-write(before-seal)");
    }
    o.label(format!("acknowledged:{}", bucket(acked)));
    o.label(format!("acknowledged-after-the-first-fault:{}", bucket(acked_after_fault)));
    o.label(format!("failed-calls:{}", bucket(failed)));
    if failed_present > 0 {
        o.label("failed-append-present-in-file(allowed)");
    }
    if unacked_ok > 0 {
        o.label("ok-but-never-synced");
    }
    if rb.error.is_some() {
        o.label("reader-stops-with-error-after-all-acknowledged");
    }
    if stop.is_some() || gstop.is_some() {
        o.label("file-has-torn-tail");
    }
    if members.iter().any(|m| m.len() >= 2 && m.iter().all(|(t, s)| !recs[*t][*s].ok)) {
        o.label("every-waiter-of-a-merged-write-failed");
    }
    if members.iter().any(|m| m.len() >= 2) {
        o.label("merged-write");
    }
    if too_large {
        o.label("coalescing:a-frame-group-carries-more-than-1MiB");
    }
    o.nontrivial = !faults.is_empty() && (failed > 0 || !run.other_errors.is_empty());
}

///////////////////////////////////////////// running //////////////////////////////////////////////

fn run_conc(ctx: &Ctx, c: &ConcCase, f: &Faults) -> Outcome {
    // one write and at most one sync per call when nothing is merged; a write buffer smaller than a
    // batch turns every append into two or more writes
    let calls: usize = c.threads.iter().map(|t| t.batches.len()).sum();
    let small_buffer = c.opts.write_buffer.map(|w| w < 4096).unwrap_or(false);
    let wn = if small_buffer { 2 * calls } else { calls.div_ceil(2) };
    let d = match conc::drive(ctx, c, &|w0, s0| f.arm(w0, s0, wn, calls.div_ceil(2))) {
        Ok(d) => d,
        Err(o) => return o,
    };
    let mut o = Outcome::pass();
    let nt = c.threads.len();
    let recs: Vec<Vec<FRec>> = d
        .recs
        .iter()
        .enumerate()
        .map(|(t, rs)| {
            rs.iter()
                .map(|r| {
                    let ok = r.err.is_none();
                    // the prefill (pseudo thread) was never acknowledged as durable by anybody
                    let acked = if ok && t < nt { Some(r.synced_at_return) } else { None };
                    FRec { ok, acked, start: r.start, end: r.end, err: r.err.clone() }
                })
                .collect()
        })
        .collect();
    if recs.iter().zip(d.plan.iter()).any(|(r, p)| r.len() != p.len()) {
        o.inconclusive = true;
        o.label("harness: a thread returned fewer records than batches");
        return o;
    }
    let other_errors = d.fsyncs.iter().filter_map(|f| f.err.as_ref().map(|e| ("ConcurrentLogBuilder::fsync".to_string(), f.end, e.clone()))).collect();
    let run = FaultRun { what: "ConcurrentLogBuilder", plan: &d.plan, payload: &d.payload, recs, opts: &d.opts, path: &d.path, faults: &d.faults, shim_len: d.shim_len, odd: d.odd, other_errors, writes_after_failure: d.writes_after_failure };
    judge(&run, &mut o);
    if !o.failed() {
        o.label("builder:concurrent");
        o.label(format!("mode:{:?}{}", c.mode, if c.mode != Mode::Free && !d.pile_established { "(not-established)" } else { "" }));
        conc::conc_labels(c, &d, &mut o);
        if c.mode != Mode::Free && d.pile_established {
            let followers_failed = (1..nt).all(|t| run.recs[t].first().map(|r| !r.ok).unwrap_or(false));
            if followers_failed {
                o.label("pileup:every-waiter-got-Err");
            }
        }
        if d.sealed.is_err() {
            o.label("seal-failed");
        }
    }
    let _ = std::fs::remove_dir_all(&d.dir);
    o
}

fn run_seq(ctx: &Ctx, p: &SeqProg, f: &Faults) -> Outcome {
    let mut o = Outcome::pass();
    let opts = p.opts.build();
    let seed = p.seed as u64;
    let shapes: Vec<&BatchShape> = p.ops.iter().filter_map(|op| if let SeqOp::Append(b) = op { Some(b) } else { None }).collect();
    let plan: Vec<Vec<Vec<Entry>>> = vec![shapes.iter().enumerate().map(|(s, b)| conc::entries_of(seed, 0, s, b)).collect()];
    let mut payload = vec![vec![]];
    let mut prepared = vec![];
    for (s, es) in plan[0].iter().enumerate() {
        match conc::prepare(es, shapes[s]) {
            Ok((pr, sz)) => {
                payload[0].push(sz);
                prepared.push(pr);
            }
            Err(e) => {
                let size: usize = es.iter().map(|e| entry_size(e.key.len(), e.ts, e.val.as_ref().map(|v| v.len()))).sum();
                if size as u64 > MUST_ACCEPT {
                    o.label("refused-above-documented-maximum:batch(case-skipped)");
                    return o;
                }
                o.fail("batch-entry-refused", format!("a write batch of {size} bytes refused an entry: {e:?}"));
                return o;
            }
        }
    }
    let dir = ctx.fresh_dir("fseq");
    let path = dir.join("log");
    let mut log: LogBuilder<std::fs::File> = if p.via_new {
        let l = match LogBuilder::new(opts.clone(), &path) {
            Ok(l) => l,
            Err(e) => {
                o.inconclusive = true;
                o.label(format!("harness: cannot create log file: {e:?}"));
                return o;
            }
        };
        let Some(fd) = conc::fd_of_path(&path) else {
            o.inconclusive = true;
            o.label("harness: cannot find the descriptor of the log");
            return o;
        };
        shim::arm(fd, 0, 0);
        l
    } else {
        let file = match std::fs::OpenOptions::new().create_new(true).read(true).write(true).open(&path) {
            Ok(f) => f,
            Err(e) => {
                o.inconclusive = true;
                o.label(format!("harness: cannot create the log file: {e}"));
                return o;
            }
        };
        shim::arm(file.as_raw_fd(), 0, 0);
        LogBuilder::from_write(opts.clone(), file).expect("from_write")
    };
    {
        let appends = shapes.len();
        let syncs = p.ops.iter().filter(|op| matches!(op, SeqOp::Fsync)).count();
        let flushes = p.ops.iter().filter(|op| !matches!(op, SeqOp::Append(_))).count();
        let small_buffer = p.opts.write_buffer.map(|w| w < 4096).unwrap_or(false);
        f.arm(0, 0, if small_buffer { 2 * appends } else { flushes }, syncs);
    }
    let mut recs: Vec<FRec> = vec![];
    let mut other_errors = vec![];
    let mut prepared = prepared.into_iter();
    let mut calls = std::collections::BTreeSet::new();
    let mut writes_after_failure = 0u64;
    let ran = vcore::guard(|| {
        for op in p.ops.iter() {
            match op {
                SeqOp::Append(_) => {
                    let pr = prepared.next().expect("one prepared batch per append");
                    let start = shim::tick();
                    let r = match pr {
                        conc::Prepared::Batch(wb) => {
                            calls.insert("call:append");
                            log.append(&wb)
                        }
                        conc::Prepared::Single(e) => match &e.val {
                            Some(v) => {
                                calls.insert("call:put");
                                log.put(&e.key, e.ts, v)
                            }
                            None => {
                                calls.insert("call:del");
                                log.del(&e.key, e.ts)
                            }
                        },
                    };
                    let end = shim::tick();
                    recs.push(FRec { ok: r.is_ok(), acked: None, start, end, err: r.err().map(|e| vcore::truncate(&format!("{e:?}"), 300)) });
                }
                SeqOp::Flush => {
                    calls.insert("call:flush");
                    let r = log.flush();
                    let end = shim::tick();
                    if let Err(e) = r {
                        other_errors.push(("LogBuilder::flush".to_string(), end, vcore::truncate(&format!("{e:?}"), 300)));
                    }
                }
                SeqOp::Fsync => {
                    calls.insert("call:fsync");
                    let r = log.fsync();
                    let synced = shim::SYNCED.load(Ordering::SeqCst);
                    let end = shim::tick();
                    match r {
                        Ok(()) => {
                            // everything appended with success so far is acknowledged as durable now
                            for rec in recs.iter_mut().filter(|r| r.ok && r.acked.is_none()) {
                                rec.acked = Some(synced);
                                rec.end = end;
                            }
                        }
                        Err(e) => other_errors.push(("LogBuilder::fsync".to_string(), end, vcore::truncate(&format!("{e:?}"), 300))),
                    }
                }
            }
        }
        writes_after_failure = shim::WRITES_AFTER_FAILURE.load(Ordering::SeqCst);
        log.seal().map(|(_, file)| drop(file)).is_ok()
    });
    let shim_len = shim::LEN.load(Ordering::SeqCst);
    let odd = shim::ODD_WRITES.load(Ordering::SeqCst);
    let faults = shim::FAULT_LOG.lock().unwrap().clone();
    shim::disarm();
    let sealed = match ran {
        Ok(s) => s,
        Err(fl) => {
            o.nontrivial = true;
            o.fail(fl.signature, format!("LogBuilder<File> panics after an injected failure ({:?}): {}", faults.iter().map(|f| (f.kind, f.idx)).collect::<Vec<_>>(), fl.message));
            let _ = std::fs::remove_dir_all(&dir);
            return o;
        }
    };
    let run = FaultRun { what: "LogBuilder<File>", plan: &plan, payload: &payload, recs: vec![recs], opts: &opts, path: &path, faults: &faults, shim_len, odd, other_errors, writes_after_failure };
    judge(&run, &mut o);
    if !o.failed() {
        o.label("builder:sequential");
        p.opts.labels(&mut o);
        for c in calls {
            o.label(c);
        }
        if !sealed {
            o.label("seal-failed");
        }
    }
    let _ = std::fs::remove_dir_all(&dir);
    o
}

pub struct FaultInjection;

impl Property for FaultInjection {
    type Case = FaultCase;
    fn name(&self) -> String {
        "fault-injection".into()
    }
    fn cases(&self, tier: Tier) -> u64 {
        tier.pick(180, 2500)
    }
    fn max_shrink_iters(&self) -> u32 {
        120
    }
    fn record_current(&self) -> bool {
        true
    }
    fn strategy(&self, ctx: &Ctx) -> BoxedStrategy<FaultCase> {
        let target = prop_oneof![3 => conc::fault_strategy(ctx.tier).prop_map(Target::Conc), 2 => seq_prog().prop_map(Target::Seq)];
        (target, faults()).prop_map(|(target, faults)| FaultCase { target, faults }).boxed()
    }
    fn run(&self, ctx: &Ctx, c: &FaultCase) -> Outcome {
        match &c.target {
            Target::Seq(p) => run_seq(ctx, p, &c.faults),
            Target::Conc(cc) => {
                let n = if ctx.strict || ctx.replay { 20 } else { 1 };
                let mut last = Outcome::pass();
                for _ in 0..n {
                    last = run_conc(ctx, cc, &c.faults);
                    if last.failed() || last.inconclusive {
                        break;
                    }
                }
                last
            }
        }
    }
}
