//! In-binary interposition of `write`, `fdatasync` and `fsync` (same technique as
//! vstore/src/shim.rs): the functions are exported under their libc names, so Rust's std and sst's
//! direct `libc::fdatasync` resolve to them; each forwards to the real one via `dlsym(RTLD_NEXT)`.
//!
//! For ONE target file descriptor the shim keeps
//!   * `LEN`     bytes successfully written so far (the log is append-only, so this is the length),
//!   * `SYNCED`  the largest `LEN` that was read *before* a data sync that then completed with
//!               success, i.e. a length that is certainly covered by a finished fdatasync,
//!   * a trace of the write calls `(offset, bytes)` and of the sync calls `(LEN at start)`,
//! can delay every write / sync by a generated number of microseconds, and can *hold* the k-th
//! write or the k-th sync at a gate until the harness opens it (used to force a pile-up in the
//! write- or the fsync-coalescing queue).  For every other descriptor it is a pass-through.

#![allow(clippy::missing_safety_doc)]

use libc::{c_char, c_int, c_void, size_t, ssize_t};
use std::sync::Mutex;
use std::sync::atomic::{AtomicBool, AtomicI32, AtomicU64, Ordering};
use std::time::{Duration, Instant};

pub static TARGET_FD: AtomicI32 = AtomicI32::new(-1);
pub static LEN: AtomicU64 = AtomicU64::new(0);
pub static SYNCED: AtomicU64 = AtomicU64::new(0);
pub static WRITES: AtomicU64 = AtomicU64::new(0);
pub static SYNCS: AtomicU64 = AtomicU64::new(0);
pub static WRITE_DELAY_US: AtomicU64 = AtomicU64::new(0);
pub static SYNC_DELAY_US: AtomicU64 = AtomicU64::new(0);
/// index of the write / sync call that is held at the gate (u64::MAX = none)
pub static GATE_WRITE_AT: AtomicU64 = AtomicU64::new(u64::MAX);
pub static GATE_SYNC_AT: AtomicU64 = AtomicU64::new(u64::MAX);
pub static GATE_HELD: AtomicBool = AtomicBool::new(false);
pub static GATE_OPEN: AtomicBool = AtomicBool::new(false);
/// short or failed writes on the target (the harness then calls the case inconclusive)
pub static ODD_WRITES: AtomicU64 = AtomicU64::new(0);

pub static WRITE_TRACE: Mutex<Vec<(u64, u64)>> = Mutex::new(Vec::new());
pub static SYNC_TRACE: Mutex<Vec<u64>> = Mutex::new(Vec::new());

pub fn arm(fd: c_int, write_delay_us: u64, sync_delay_us: u64) {
    LEN.store(0, Ordering::SeqCst);
    SYNCED.store(0, Ordering::SeqCst);
    WRITES.store(0, Ordering::SeqCst);
    SYNCS.store(0, Ordering::SeqCst);
    ODD_WRITES.store(0, Ordering::SeqCst);
    WRITE_DELAY_US.store(write_delay_us, Ordering::SeqCst);
    SYNC_DELAY_US.store(sync_delay_us, Ordering::SeqCst);
    GATE_WRITE_AT.store(u64::MAX, Ordering::SeqCst);
    GATE_SYNC_AT.store(u64::MAX, Ordering::SeqCst);
    GATE_HELD.store(false, Ordering::SeqCst);
    GATE_OPEN.store(false, Ordering::SeqCst);
    WRITE_TRACE.lock().unwrap().clear();
    SYNC_TRACE.lock().unwrap().clear();
    TARGET_FD.store(fd, Ordering::SeqCst);
}

pub fn disarm() {
    TARGET_FD.store(-1, Ordering::SeqCst);
    GATE_OPEN.store(true, Ordering::SeqCst);
}

macro_rules! real {
    ($name:literal, $ty:ty) => {{
        static PTR: std::sync::atomic::AtomicUsize = std::sync::atomic::AtomicUsize::new(0);
        let mut p = PTR.load(Ordering::Relaxed);
        if p == 0 {
            p = unsafe { libc::dlsym(libc::RTLD_NEXT, concat!($name, "\0").as_ptr() as *const c_char) } as usize;
            PTR.store(p, Ordering::Relaxed);
        }
        let f: $ty = unsafe { std::mem::transmute::<usize, $ty>(p) };
        f
    }};
}

fn nap(us: u64) {
    if us > 0 {
        std::thread::sleep(Duration::from_micros(us));
    }
}

fn gate() {
    GATE_HELD.store(true, Ordering::SeqCst);
    let t0 = Instant::now();
    while !GATE_OPEN.load(Ordering::SeqCst) && t0.elapsed() < Duration::from_secs(20) {
        std::thread::sleep(Duration::from_micros(50));
    }
    GATE_HELD.store(false, Ordering::SeqCst);
}

#[unsafe(no_mangle)]
pub unsafe extern "C" fn write(fd: c_int, buf: *const c_void, n: size_t) -> ssize_t {
    let f = real!("write", extern "C" fn(c_int, *const c_void, size_t) -> ssize_t);
    if fd < 0 || fd != TARGET_FD.load(Ordering::Relaxed) {
        return f(fd, buf, n);
    }
    let idx = WRITES.fetch_add(1, Ordering::SeqCst);
    if idx == GATE_WRITE_AT.load(Ordering::SeqCst) {
        gate();
    }
    nap(WRITE_DELAY_US.load(Ordering::Relaxed));
    let r = f(fd, buf, n);
    if r > 0 {
        let off = LEN.fetch_add(r as u64, Ordering::SeqCst);
        WRITE_TRACE.lock().unwrap().push((off, r as u64));
    }
    if r < 0 || r as usize != n {
        ODD_WRITES.fetch_add(1, Ordering::SeqCst);
    }
    r
}

fn sync_common(fd: c_int, f: extern "C" fn(c_int) -> c_int) -> c_int {
    if fd < 0 || fd != TARGET_FD.load(Ordering::Relaxed) {
        return f(fd);
    }
    let idx = SYNCS.fetch_add(1, Ordering::SeqCst);
    if idx == GATE_SYNC_AT.load(Ordering::SeqCst) {
        gate();
    }
    nap(SYNC_DELAY_US.load(Ordering::Relaxed));
    // Everything written before the sync starts is covered by it once it has succeeded.
    let covered = LEN.load(Ordering::SeqCst);
    SYNC_TRACE.lock().unwrap().push(covered);
    let r = f(fd);
    if r == 0 {
        SYNCED.fetch_max(covered, Ordering::SeqCst);
    }
    r
}

#[unsafe(no_mangle)]
pub unsafe extern "C" fn fdatasync(fd: c_int) -> c_int {
    sync_common(fd, real!("fdatasync", extern "C" fn(c_int) -> c_int))
}

#[unsafe(no_mangle)]
pub unsafe extern "C" fn fsync(fd: c_int) -> c_int {
    sync_common(fd, real!("fsync", extern "C" fn(c_int) -> c_int))
}
