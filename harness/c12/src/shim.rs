//! In-binary interposition of `write`, `fdatasync` and `fsync` (same technique as
//! vstore/src/shim.rs): the functions are exported under their libc names, so Rust's std and sst's
//! direct `libc::fdatasync` resolve to them; each forwards to the real one via `dlsym(RTLD_NEXT)`.
//!
//! For ONE target file descriptor the shim keeps
//!   * `LEN`     bytes successfully written so far (the log is append-only, so this is the length),
//!   * `SYNCED`  the largest `LEN` that was read on entry to a data sync that then completed with
//!               success, i.e. a length that is certainly covered by a finished fdatasync,
//!   * a trace of the write calls `(offset, bytes)` and of the sync calls `(LEN at start)`,
//! can delay every write / sync by a generated number of microseconds, and can *hold* the k-th
//! write or the k-th sync at a gate until the harness opens it (used to force a pile-up in the
//! write- or the fsync-coalescing queue).  For every other descriptor it is a pass-through.
//!
//! Fault injection (`set_write_fault` / `set_sync_fault`, cleared by `arm`): the write calls with
//! index `at .. at+count` on the target fail with the given errno without touching the file; with
//! `short != 0` the call `at` first writes a proper prefix of its buffer (length chosen
//! monotonically from `short`) and reports that length, and the failures start with the next call.
//! The sync calls with index `at .. at+count` fail with the given errno without syncing (and so
//! never advance `SYNCED`).  Every injected event is appended to `FAULT_LOG` with the value of
//! `LEN` and of the harness clock at that moment.

#![allow(clippy::missing_safety_doc)]

use libc::{c_char, c_int, c_void, size_t, ssize_t};
use std::sync::Mutex;
use std::sync::atomic::{AtomicBool, AtomicI32, AtomicU64, Ordering};
use std::time::{Duration, Instant};

pub static TARGET_FD: AtomicI32 = AtomicI32::new(-1);
pub static LEN: AtomicU64 = AtomicU64::new(0);
pub static SYNCED: AtomicU64 = AtomicU64::new(0);
pub static WRITES: AtomicU64 = AtomicU64::new(0);
pub static SYNCS: AtomicU64 = AtomicU64::new(0);
pub static WRITE_DELAY_US: AtomicU64 = AtomicU64::new(0);
pub static SYNC_DELAY_US: AtomicU64 = AtomicU64::new(0);
/// index of the write / sync call that is held at the gate (u64::MAX = none)
pub static GATE_WRITE_AT: AtomicU64 = AtomicU64::new(u64::MAX);
pub static GATE_SYNC_AT: AtomicU64 = AtomicU64::new(u64::MAX);
pub static GATE_HELD: AtomicBool = AtomicBool::new(false);
pub static GATE_OPEN: AtomicBool = AtomicBool::new(false);
/// short or failed writes on the target (the harness then calls the case inconclusive)
pub static ODD_WRITES: AtomicU64 = AtomicU64::new(0);

pub static WRITE_TRACE: Mutex<Vec<(u64, u64)>> = Mutex::new(Vec::new());
pub static SYNC_TRACE: Mutex<Vec<u64>> = Mutex::new(Vec::new());

/// One logical clock for the harness threads and the shim (invocation / response / fault stamps).
pub static CLOCK: AtomicU64 = AtomicU64::new(1);
pub fn tick() -> u64 {
    CLOCK.fetch_add(1, Ordering::SeqCst)
}

// write faults: calls W_FAIL_FROM .. W_FAIL_FROM + W_FAIL_COUNT fail; W_SHORT_AT = index of the call
// that is cut short first (u64::MAX = none), W_SHORT_FRAC chooses the prefix length
static W_FAIL_FROM: AtomicU64 = AtomicU64::new(u64::MAX);
static W_FAIL_COUNT: AtomicU64 = AtomicU64::new(0);
static W_ERRNO: AtomicI32 = AtomicI32::new(0);
static W_SHORT_AT: AtomicU64 = AtomicU64::new(u64::MAX);
static W_SHORT_FRAC: AtomicU64 = AtomicU64::new(0);
static S_FAIL_FROM: AtomicU64 = AtomicU64::new(u64::MAX);
static S_FAIL_COUNT: AtomicU64 = AtomicU64::new(0);
static S_ERRNO: AtomicI32 = AtomicI32::new(0);
/// successful write calls that came after a failed (or cut short) write call
pub static WRITES_AFTER_FAILURE: AtomicU64 = AtomicU64::new(0);
static W_FAILED: AtomicBool = AtomicBool::new(false);

#[derive(Clone, Copy, Debug, PartialEq, Eq)]
pub enum FaultKind {
    WriteFailed,
    WriteShort,
    SyncFailed,
}

#[derive(Clone, Copy, Debug)]
pub struct FaultEvent {
    pub kind: FaultKind,
    /// index of the call among the writes (syncs) on the target
    pub idx: u64,
    /// `LEN` when the call was made (for a short write: before the prefix was written)
    pub len_at: u64,
    pub stamp: u64,
}

pub static FAULT_LOG: Mutex<Vec<FaultEvent>> = Mutex::new(Vec::new());

/// Fail the write calls `at .. at+count` (count = u64::MAX: for ever).  `short` in 1..=65535 cuts
/// call `at` short first (a prefix of 1 .. n-1 bytes is written) and moves the failures to the calls
/// after it.  Call after `arm`.
pub fn set_write_fault(at: u64, count: u64, errno: c_int, short: u16) {
    W_ERRNO.store(errno, Ordering::SeqCst);
    W_FAIL_COUNT.store(count, Ordering::SeqCst);
    if short == 0 {
        W_SHORT_AT.store(u64::MAX, Ordering::SeqCst);
        W_FAIL_FROM.store(at, Ordering::SeqCst);
    } else {
        W_SHORT_FRAC.store(short as u64, Ordering::SeqCst);
        W_FAIL_FROM.store(u64::MAX, Ordering::SeqCst);
        W_SHORT_AT.store(at, Ordering::SeqCst);
    }
}

pub fn set_sync_fault(at: u64, count: u64, errno: c_int) {
    S_ERRNO.store(errno, Ordering::SeqCst);
    S_FAIL_COUNT.store(count, Ordering::SeqCst);
    S_FAIL_FROM.store(at, Ordering::SeqCst);
}

fn in_window(idx: u64, from: u64, count: u64) -> bool {
    from != u64::MAX && idx >= from && (count == u64::MAX || idx - from < count)
}

fn set_errno(e: c_int) {
    unsafe { *libc::__errno_location() = e };
}

pub fn arm(fd: c_int, write_delay_us: u64, sync_delay_us: u64) {
    LEN.store(0, Ordering::SeqCst);
    SYNCED.store(0, Ordering::SeqCst);
    WRITES.store(0, Ordering::SeqCst);
    SYNCS.store(0, Ordering::SeqCst);
    ODD_WRITES.store(0, Ordering::SeqCst);
    WRITE_DELAY_US.store(write_delay_us, Ordering::SeqCst);
    SYNC_DELAY_US.store(sync_delay_us, Ordering::SeqCst);
    GATE_WRITE_AT.store(u64::MAX, Ordering::SeqCst);
    GATE_SYNC_AT.store(u64::MAX, Ordering::SeqCst);
    GATE_HELD.store(false, Ordering::SeqCst);
    GATE_OPEN.store(false, Ordering::SeqCst);
    WRITE_TRACE.lock().unwrap().clear();
    SYNC_TRACE.lock().unwrap().clear();
    W_FAIL_FROM.store(u64::MAX, Ordering::SeqCst);
    W_SHORT_AT.store(u64::MAX, Ordering::SeqCst);
    S_FAIL_FROM.store(u64::MAX, Ordering::SeqCst);
    W_FAILED.store(false, Ordering::SeqCst);
    WRITES_AFTER_FAILURE.store(0, Ordering::SeqCst);
    FAULT_LOG.lock().unwrap().clear();
    TARGET_FD.store(fd, Ordering::SeqCst);
}

pub fn disarm() {
    TARGET_FD.store(-1, Ordering::SeqCst);
    GATE_OPEN.store(true, Ordering::SeqCst);
}

macro_rules! real {
    ($name:literal, $ty:ty) => {{
        static PTR: std::sync::atomic::AtomicUsize = std::sync::atomic::AtomicUsize::new(0);
        let mut p = PTR.load(Ordering::Relaxed);
        if p == 0 {
            p = unsafe { libc::dlsym(libc::RTLD_NEXT, concat!($name, "\0").as_ptr() as *const c_char) } as usize;
            PTR.store(p, Ordering::Relaxed);
        }
        let f: $ty = unsafe { std::mem::transmute::<usize, $ty>(p) };
        f
    }};
}

fn nap(us: u64) {
    if us > 0 {
        std::thread::sleep(Duration::from_micros(us));
    }
}

fn gate() {
    GATE_HELD.store(true, Ordering::SeqCst);
    let t0 = Instant::now();
    while !GATE_OPEN.load(Ordering::SeqCst) && t0.elapsed() < Duration::from_secs(20) {
        std::thread::sleep(Duration::from_micros(50));
    }
    GATE_HELD.store(false, Ordering::SeqCst);
}

#[unsafe(no_mangle)]
pub unsafe extern "C" fn write(fd: c_int, buf: *const c_void, n: size_t) -> ssize_t {
    let f = real!("write", extern "C" fn(c_int, *const c_void, size_t) -> ssize_t);
    if fd < 0 || fd != TARGET_FD.load(Ordering::Relaxed) {
        return f(fd, buf, n);
    }
    let idx = WRITES.fetch_add(1, Ordering::SeqCst);
    if idx == GATE_WRITE_AT.load(Ordering::SeqCst) {
        gate();
    }
    nap(WRITE_DELAY_US.load(Ordering::Relaxed));
    // injected faults
    if idx == W_SHORT_AT.load(Ordering::SeqCst) {
        if n >= 2 {
            let p = 1 + (((n as u64 - 2) * W_SHORT_FRAC.load(Ordering::SeqCst)) >> 16) as usize;
            let len_at = LEN.load(Ordering::SeqCst);
            let r = f(fd, buf, p);
            if r > 0 {
                let off = LEN.fetch_add(r as u64, Ordering::SeqCst);
                WRITE_TRACE.lock().unwrap().push((off, r as u64));
            }
            FAULT_LOG.lock().unwrap().push(FaultEvent { kind: FaultKind::WriteShort, idx, len_at, stamp: tick() });
            W_FAILED.store(true, Ordering::SeqCst);
            W_FAIL_FROM.store(idx + 1, Ordering::SeqCst);
            return r;
        }
        // nothing to cut: fail this call instead
        W_FAIL_FROM.store(idx, Ordering::SeqCst);
    }
    if in_window(idx, W_FAIL_FROM.load(Ordering::SeqCst), W_FAIL_COUNT.load(Ordering::SeqCst)) {
        FAULT_LOG.lock().unwrap().push(FaultEvent { kind: FaultKind::WriteFailed, idx, len_at: LEN.load(Ordering::SeqCst), stamp: tick() });
        W_FAILED.store(true, Ordering::SeqCst);
        set_errno(W_ERRNO.load(Ordering::SeqCst));
        return -1;
    }
    let r = f(fd, buf, n);
    if r > 0 {
        let off = LEN.fetch_add(r as u64, Ordering::SeqCst);
        WRITE_TRACE.lock().unwrap().push((off, r as u64));
        if W_FAILED.load(Ordering::SeqCst) {
            WRITES_AFTER_FAILURE.fetch_add(1, Ordering::SeqCst);
        }
    }
    if r < 0 || r as usize != n {
        ODD_WRITES.fetch_add(1, Ordering::SeqCst);
    }
    r
}

fn sync_common(fd: c_int, f: extern "C" fn(c_int) -> c_int) -> c_int {
    if fd < 0 || fd != TARGET_FD.load(Ordering::Relaxed) {
        return f(fd);
    }
    let idx = SYNCS.fetch_add(1, Ordering::SeqCst);
    // Everything written before the sync is CALLED is covered by it once it has succeeded.  (Bytes
    // written while the call is held at the gate or delayed below are covered too, in fact; no
    // caller can know that, so the length is taken on entry.)
    let covered = LEN.load(Ordering::SeqCst);
    if idx == GATE_SYNC_AT.load(Ordering::SeqCst) {
        gate();
    }
    nap(SYNC_DELAY_US.load(Ordering::Relaxed));
    if in_window(idx, S_FAIL_FROM.load(Ordering::SeqCst), S_FAIL_COUNT.load(Ordering::SeqCst)) {
        FAULT_LOG.lock().unwrap().push(FaultEvent { kind: FaultKind::SyncFailed, idx, len_at: covered, stamp: tick() });
        set_errno(S_ERRNO.load(Ordering::SeqCst));
        return -1;
    }
    SYNC_TRACE.lock().unwrap().push(covered);
    let r = f(fd);
    if r == 0 {
        SYNCED.fetch_max(covered, Ordering::SeqCst);
    }
    r
}

#[unsafe(no_mangle)]
pub unsafe extern "C" fn fdatasync(fd: c_int) -> c_int {
    sync_common(fd, real!("fdatasync", extern "C" fn(c_int) -> c_int))
}

#[unsafe(no_mangle)]
pub unsafe extern "C" fn fsync(fd: c_int) -> c_int {
    sync_common(fd, real!("fsync", extern "C" fn(c_int) -> c_int))
}
