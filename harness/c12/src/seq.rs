//! Parts 1 and 2: sequential logs built with `LogBuilder`, read back with `LogIterator`, whole and
//! cut at chosen bytes.

use std::io::Cursor;

use proptest::prelude::*;
use serde::{Deserialize, Serialize};

use sst::log::{LogBuilder, LogIterator, LogOptions, WriteBatch};
use sst::{Builder, Setsum};
use vcore::gens::sel;
use vcore::{Ctx, Outcome, Property, Tier};

use crate::model::*;

//////////////////////////////////////////////// steps /////////////////////////////////////////////

#[derive(Clone, Debug, Serialize, Deserialize)]
pub enum Step {
    /// one batch of explicitly shaped entries
    Batch(Vec<EntryShape>),
    /// filler batches (whole frames) after which exactly `slack` bytes remain before the next
    /// block boundary; the distance is covered by `pieces` batches per block
    Fill { slack: u32, pieces: u8, ts: u64, fill: u8 },
    /// one batch whose whole frame (header + payload) is `delta` bytes longer than the room left
    /// in the current block (0 = exact fit); `lead` entries come first, one closing entry absorbs
    /// the rest
    Fit { delta: i16, lead: Vec<EntryShape>, ts: u64, fill: u8 },
    /// one batch whose payload is `limit + delta`: limit 0 = sst::MAX_BATCH_LEN, 1 =
    /// log::MAX_BATCH_SIZE, 2 = 1 MiB (the largest payload a WriteBatch accepts)
    Big { limit: u8, delta: i16, ts: u64, fill: u8 },
    /// `count` batches of one tiny entry each; `direct`: every second one goes through
    /// `LogBuilder::put` / `del` instead of a one-entry `WriteBatch`
    Tiny {
        count: u16,
        tombstones: bool,
        #[serde(default)]
        direct: bool,
    },
    /// one batch built through `WriteBatch::insert` / `merge` (see `Via`)
    Built { shapes: Vec<EntryShape>, via: Via },
    /// one entry through `LogBuilder::put` (or `del` for a tombstone shape)
    Single(EntryShape),
    /// a batch filled to `room` bytes below 1 MiB; merging a batch of more than `room` bytes into
    /// it must be refused (table-full) and leave it unchanged, merging one of exactly `room` bytes
    /// must succeed; the result is appended
    MergeOver { room: u8, ts: u64 },
    /// `LogBuilder::flush`
    Flush,
    /// `LogBuilder<File>::fsync` (a flush for in-memory logs)
    Fsync,
    /// an empty batch: must be refused with the empty-batch error and leave the log unchanged
    Empty,
    /// a batch filled to `room` bytes below 1 MiB, then one entry that does not fit any more: the
    /// entry must be refused (table-full) without changing the batch, which is then appended
    Overfull { room: u8, ts: u64 },
}

fn slack_strategy() -> impl Strategy<Value = u32> {
    prop_oneof![
        10 => 0u32..=45,
        2 => 46u32..400,
        2 => 400u32..70_000,
    ]
}

fn fill_step() -> impl Strategy<Value = Step> {
    (slack_strategy(), prop_oneof![4 => Just(1u8), 2 => 2u8..5, 1 => 5u8..40], ts_strategy(), prop_oneof![4 => Just(0u8), 1 => 1u8..4])
        .prop_map(|(slack, pieces, ts, fill)| Step::Fill { slack, pieces, ts, fill })
}

fn probe_step(small_only: bool) -> BoxedStrategy<Step> {
    let delta = prop_oneof![6 => -3i16..=3, 3 => -25i16..=25, 1 => -300i16..=300];
    let fit = (delta, prop::collection::vec(small_shape(), 0..3), ts_strategy(), 0u8..4)
        .prop_map(|(delta, lead, ts, fill)| Step::Fit { delta, lead, ts, fill });
    let batch = prop::collection::vec(if small_only { small_shape().boxed() } else { any_shape().boxed() }, 1..6).prop_map(Step::Batch);
    let tiny = (1u16..60, any::<bool>(), any::<bool>()).prop_map(|(count, tombstones, direct)| Step::Tiny { count, tombstones, direct });
    let built = (prop::collection::vec(if small_only { small_shape().boxed() } else { any_shape().boxed() }, 1..6), via_strategy()).prop_map(|(shapes, via)| Step::Built { shapes, via });
    let single = if small_only { small_shape().prop_map(Step::Single).boxed() } else { any_shape().prop_map(Step::Single).boxed() };
    let sync = prop_oneof![Just(Step::Flush), Just(Step::Fsync)];
    if small_only {
        prop_oneof![10 => fit, 7 => batch, 3 => built, 2 => single, 2 => tiny, 2 => Just(Step::Empty), 1 => sync].boxed()
    } else {
        let big = (0u8..3, -2i16..=2, ts_strategy(), 0u8..4).prop_map(|(limit, delta, ts, fill)| Step::Big { limit, delta, ts, fill });
        let over = (0u8..40, ts_strategy()).prop_map(|(room, ts)| Step::Overfull { room, ts });
        let merge_over = (0u8..40, ts_strategy()).prop_map(|(room, ts)| Step::MergeOver { room, ts });
        prop_oneof![20 => fit, 14 => batch, 6 => built, 4 => single, 4 => tiny, 4 => big, 2 => Just(Step::Empty), 1 => over, 1 => merge_over, 2 => sync].boxed()
    }
}

/// Rounds of "go near a boundary, then probe it".
pub fn steps_strategy(max_rounds: usize, small_only: bool) -> BoxedStrategy<Vec<Step>> {
    let round = (fill_step(), prop::collection::vec(probe_step(small_only), 1..4)).prop_map(|(f, mut p)| {
        let mut v = vec![f];
        v.append(&mut p);
        v
    });
    (prop::collection::vec(probe_step(true), 0..3), prop::collection::vec(round, 1..=max_rounds))
        .prop_map(|(mut head, rounds)| {
            for r in rounds {
                head.extend(r);
            }
            head
        })
        .boxed()
}

/////////////////////////////////////////////// building ///////////////////////////////////////////

pub struct Batch {
    pub entries: Vec<Entry>,
    /// builder offset after the append (the builder's own account; evidence only)
    pub end: u64,
    /// payload bytes of the batch
    pub payload: u64,
}

pub struct Built {
    pub batches: Vec<Batch>,
    pub setsum: Setsum,
    pub notes: Vec<String>,
    /// batches whose append was refused (roll-over size, or a size above the documented maximum)
    pub refused: Vec<Vec<Entry>>,
}

/// What `LogBuilder<File>` offers beyond `LogBuilder<W>`.
pub trait MaybeFsync {
    fn fsync_or_flush(&mut self) -> Result<(), sst::SError>;
}

impl MaybeFsync for LogBuilder<std::fs::File> {
    fn fsync_or_flush(&mut self) -> Result<(), sst::SError> {
        self.fsync()
    }
}

impl MaybeFsync for LogBuilder<&mut Vec<u8>> {
    fn fsync_or_flush(&mut self) -> Result<(), sst::SError> {
        self.flush()
    }
}

struct B<'a, W: sst::log::Write> {
    log: LogBuilder<W>,
    batches: Vec<Batch>,
    seed: u64,
    o: &'a mut Outcome,
    notes: Vec<String>,
    rollover: Option<u64>,
    refused: Vec<Vec<Entry>>,
}

impl<W: sst::log::Write> B<'_, W>
where
    LogBuilder<W>: MaybeFsync,
{
    fn off(&self) -> u64 {
        self.log.approximate_size() as u64
    }

    fn tag(&self, e: usize) -> u64 {
        vcore::mix(self.seed ^ ((self.batches.len() as u64) << 20) ^ e as u64)
    }

    fn entries_of(&self, shapes: &[EntryShape]) -> Vec<Entry> {
        shapes.iter().enumerate().map(|(i, s)| make_entry(self.tag(i), s)).collect()
    }

    /// Append one batch of the given shapes; returns false when an oracle failed.
    fn append_shapes(&mut self, shapes: &[EntryShape], planned: Option<usize>) -> bool {
        let entries = self.entries_of(shapes);
        let wb = match make_batch(&entries) {
            Ok(wb) => wb,
            Err(e) => {
                if self.above_documented_max(shapes_size(shapes), "batch") {
                    return true;
                }
                self.o.fail("batch-entry-refused", format!("a write batch of {} entries (payload {} bytes) refused an entry within the limits: {e:?}", entries.len(), shapes_size(shapes)));
                return false;
            }
        };
        if let Some(p) = planned {
            if wb.approximate_size() != p {
                self.notes.push("size-plan-inexact".into());
            }
        }
        self.append_batch(&wb, entries)
    }

    /// Acceptance is demanded up to the smallest documented maximum only (sst::MAX_BATCH_LEN,
    /// log::MAX_BATCH_SIZE); a refusal above it is recorded and the step is skipped.
    fn above_documented_max(&mut self, p: usize, what: &str) -> bool {
        if p as u64 > MUST_ACCEPT {
            self.notes.push(format!("refused-above-documented-maximum:{what}"));
            true
        } else {
            false
        }
    }

    fn append_batch(&mut self, wb: &WriteBatch, entries: Vec<Entry>) -> bool {
        self.append_call(wb.approximate_size(), entries, |log| log.append(wb))
    }

    /// One entry through `LogBuilder::put` / `del`.
    fn append_single(&mut self, e: Entry) -> bool {
        let p = match make_batch(std::slice::from_ref(&e)) {
            Ok(wb) => wb.approximate_size(),
            Err(err) => {
                self.o.fail("batch-entry-refused", format!("a write batch refused one entry within the limits: {err:?}"));
                return false;
            }
        };
        self.notes.push(if e.val.is_some() { "call:LogBuilder::put".into() } else { "call:LogBuilder::del".into() });
        let e2 = e.clone();
        self.append_call(p, vec![e], move |log| match &e2.val {
            Some(v) => log.put(&e2.key, e2.ts, v),
            None => log.del(&e2.key, e2.ts),
        })
    }

    /// One call that appends a batch of `p` payload bytes.  With a roll-over size the call must be
    /// refused (table-full) when the frame would end beyond it, and only then.
    fn append_call(&mut self, p: usize, entries: Vec<Entry>, call: impl FnOnce(&mut LogBuilder<W>) -> Result<(), sst::SError>) -> bool {
        let before = self.off();
        let frame = (header_len(p) + p) as u64;
        let (pad, _) = expected_placement(before, p as u64);
        let r = call(&mut self.log);
        let end = self.off();
        match r {
            Err(e) => {
                // padding and a second header may come on top of the frame (at most 2 * HEADER_MAX_SIZE + 1)
                let beyond = self.rollover.map(|r| before + frame + 2 * HMAX + 1 > r).unwrap_or(false);
                if beyond {
                    self.notes.push(if end != before { "rollover:refused-after-padding".into() } else { "rollover:refused".into() });
                } else if !self.above_documented_max(p, "append") {
                    self.o.fail("append-refused", format!("append of batch #{} (payload {p} bytes) at offset {before} failed: {e:?}", self.batches.len()));
                    return false;
                }
                if !sst::is_table_full(&e) {
                    self.notes.push("refused-append:error-is-not-table-full".into());
                }
                if end != before && end != before + pad {
                    self.notes.push("refused-append:moved-offset-by-other-than-the-padding".into());
                }
                self.refused.push(entries);
                true
            }
            Ok(()) => {
                if let Some(r) = self.rollover {
                    if before + frame > r {
                        self.o.fail("rollover-size-exceeded", format!("append of {p} payload bytes (a frame of {frame} bytes) at offset {before} was accepted although the log is to roll over at {r} bytes"));
                        return false;
                    }
                }
                if end < before + p as u64 {
                    self.notes.push("layout:append-moved-builder-offset-by-less-than-the-payload".into());
                }
                self.batches.push(Batch { entries, end, payload: p as u64 });
                true
            }
        }
    }

    /// A batch whose whole frame is exactly `frame` bytes (or as close as the encoding permits).
    fn append_frame(&mut self, frame: usize, lead: &[EntryShape], ts: u64, fill: u8) -> bool {
        let frame = frame.max(header_len(8) + entry_size(0, ts, None));
        let p = match payload_for_frame(frame).or_else(|| payload_for_frame(frame - 1)) {
            Some(p) => p.min(BLOCK as usize),
            None => return true,
        };
        if payload_for_frame(frame).is_none() {
            self.notes.push("frame-size-unattainable".into());
        }
        match plan_exact(p, lead, ts, fill) {
            Some(shapes) => self.append_shapes(&shapes, Some(p)),
            None => {
                self.notes.push("no-plan".into());
                true
            }
        }
    }

    /// Whole frames up to `target` (which lies in the current block, or is its end).
    fn fill_to(&mut self, target: u64, pieces: u8, ts: u64, fill: u8) -> bool {
        let min_frame = (header_len(8) + entry_size(0, ts, None)) as u64;
        let mut pieces = pieces.max(1) as u64;
        loop {
            let off = self.off();
            if off >= target {
                return true;
            }
            let d = target - off;
            if d < min_frame {
                self.notes.push("fill-short".into());
                return true;
            }
            let mut this = if pieces > 1 && d / pieces >= 2 * min_frame + 200 { d / pieces } else { d };
            // lengths no whole frame can have (138, 16395): two attainable frames instead
            if this == d && payload_for_frame(d as usize).is_none() && d >= 30 + min_frame {
                this = 30;
            }
            pieces = pieces.saturating_sub(1).max(1);
            let before = self.batches.len();
            if !self.append_frame(this as usize, &[], ts, fill) {
                return false;
            }
            if self.batches.len() == before {
                return true;
            }
        }
    }

    fn step(&mut self, s: &Step) -> bool {
        match s {
            Step::Batch(shapes) => self.append_shapes(shapes, None),
            Step::Fill { slack, pieces, ts, fill } => {
                let min_frame = (header_len(8) + entry_size(0, *ts, None)) as u64;
                let off = self.off();
                let mut nb = next_boundary(off);
                if off + min_frame + *slack as u64 > nb {
                    // not enough room in this block: finish it exactly, then fill the next one
                    if nb - off >= min_frame {
                        if !self.fill_to(nb, 1, *ts, *fill) {
                            return false;
                        }
                    } else {
                        // the next append pads or splits; use a small one
                        if !self.append_frame(min_frame as usize + 40, &[], *ts, *fill) {
                            return false;
                        }
                    }
                    nb = next_boundary(self.off());
                    if self.off() + min_frame + *slack as u64 > nb {
                        return true;
                    }
                }
                self.fill_to(nb - *slack as u64, *pieces, *ts, *fill)
            }
            Step::Fit { delta, lead, ts, fill } => {
                let off = self.off();
                let room = (next_boundary(off) - off) as i64;
                let frame = (room + *delta as i64).max(0) as usize;
                self.append_frame(frame, lead, *ts, *fill)
            }
            Step::Big { limit, delta, ts, fill } => {
                let lim = match limit % 3 {
                    0 => sst::MAX_BATCH_LEN as i64,
                    1 => sst::log::MAX_BATCH_SIZE as i64,
                    _ => BLOCK as i64,
                };
                let p = (lim + *delta as i64).min(BLOCK as i64) as usize;
                match plan_exact(p, &[], *ts, *fill) {
                    Some(shapes) => self.append_shapes(&shapes, Some(p)),
                    None => true,
                }
            }
            Step::Tiny { count, tombstones, direct } => {
                for i in 0..*count {
                    let s = EntryShape { klen: (i % 3) as u8 as u16, ts: i as u64, vlen: if *tombstones { None } else { Some((i % 5) as u32) }, fill: 0 };
                    let ok = if *direct && i % 2 == 1 {
                        let e = make_entry(self.tag(0), &s);
                        self.append_single(e)
                    } else {
                        self.append_shapes(&[s], None)
                    };
                    if !ok {
                        return false;
                    }
                }
                true
            }
            Step::Built { shapes, via } => {
                let entries = self.entries_of(shapes);
                let wb = match make_batch_via(&entries, *via) {
                    Ok(wb) => wb,
                    Err(e) => {
                        if self.above_documented_max(shapes_size(shapes), "batch") {
                            return true;
                        }
                        self.o.fail("batch-entry-refused", format!("a write batch of {} entries built via {via:?} refused an entry within the limits: {e:?}", entries.len()));
                        return false;
                    }
                };
                if wb.approximate_size() != shapes_size(shapes) {
                    // (what the batch holds is judged when the log is read back)
                    self.notes.push("batch-via:size-differs-from-put/del".into());
                }
                self.notes.push(format!("batch-via:{via:?}"));
                self.append_batch(&wb, entries)
            }
            Step::Single(shape) => {
                let e = make_entry(self.tag(0), shape);
                self.append_single(e)
            }
            Step::Flush => {
                self.notes.push("call:flush".into());
                match self.log.flush() {
                    Ok(()) => true,
                    Err(e) => {
                        self.o.fail("flush-failed", format!("LogBuilder::flush failed: {e:?}"));
                        false
                    }
                }
            }
            Step::Fsync => {
                self.notes.push("call:fsync-or-flush".into());
                match self.log.fsync_or_flush() {
                    Ok(()) => true,
                    Err(e) => {
                        self.o.fail("fsync-failed", format!("LogBuilder::fsync failed: {e:?}"));
                        false
                    }
                }
            }
            Step::MergeOver { room, ts } => {
                let p = BLOCK as usize - *room as usize;
                let Some(shapes) = plan_exact(p, &[], *ts, 0) else { return true };
                let mut entries = self.entries_of(&shapes);
                let mut wb = match make_batch(&entries) {
                    Ok(wb) => wb,
                    Err(e) => {
                        if self.above_documented_max(p, "batch") {
                            return true;
                        }
                        self.o.fail("batch-entry-refused", format!("a write batch refused an entry that keeps the payload at {p} bytes: {e:?}"));
                        return false;
                    }
                };
                let sz = wb.approximate_size();
                let room_left = BLOCK as usize - sz;
                // one byte too many: must be refused and change nothing
                let min = entry_size(0, *ts, None);
                let over_target = (room_left + 1).max(min);
                let over_entry = (over_target..over_target + 4).find_map(|t| plan_exact(t, &[], *ts, 0).filter(|s| shapes_size(s) > room_left));
                if let Some(sh) = over_entry {
                    let es: Vec<Entry> = sh.iter().enumerate().map(|(i, s)| make_entry(self.tag(8000 + i), s)).collect();
                    let other = make_batch(&es).expect("small batch");
                    match wb.merge(&other) {
                        Ok(()) => {
                            self.o.fail("merge-over-limit-accepted", format!("merging {} bytes into a batch of {sz} bytes succeeded; the result has {} bytes, beyond the 1 MiB limit", other.approximate_size(), wb.approximate_size()));
                            return false;
                        }
                        Err(e) => {
                            if !sst::is_table_full(&e) {
                                self.notes.push("merge:over-limit-refused-with-another-error-than-table-full".into());
                            }
                            if wb.approximate_size() != sz {
                                self.o.fail("merge-over-limit-changed-batch", format!("a refused merge changed the batch's size from {sz} to {}", wb.approximate_size()));
                                return false;
                            }
                            let polluted = {
                                let mut tmp: Vec<u8> = Vec::new();
                                let mut l = LogBuilder::from_write(LogOptions::default(), &mut tmp).expect("from_write");
                                match l.append(&wb).and_then(|_| l.seal()) {
                                    Ok((s, _)) => s != setsum_of(&entries),
                                    Err(_) => false,
                                }
                            };
                            if polluted {
                                self.o.fail("refused-merge-still-in-setsum", format!("a merge refused with table-full (batch at {sz} of 1048576 bytes, other batch {} bytes) left the batch's bytes unchanged but changed its setsum", other.approximate_size()));
                                return false;
                            }
                            self.notes.push("merge:over-limit-refused".into());
                        }
                    }
                }
                // exactly the room that is left: must be accepted
                if room_left >= min {
                    if let Some(sh) = plan_exact(room_left, &[], *ts, 0).filter(|s| shapes_size(s) == room_left) {
                        let es: Vec<Entry> = sh.iter().enumerate().map(|(i, s)| make_entry(self.tag(9000 + i), s)).collect();
                        let other = make_batch(&es).expect("small batch");
                        // (1 MiB is above the documented maxima: a refusal is recorded, not judged; a
                        // refused merge must leave the batch as it was, which the read-back shows)
                        match wb.merge(&other) {
                            Ok(()) => {
                                entries.extend(es);
                                self.notes.push("merge:to-exactly-1MiB".into());
                            }
                            Err(_) => self.notes.push("merge:to-exactly-1MiB-refused(above-documented-maximum)".into()),
                        }
                    }
                }
                self.append_batch(&wb, entries)
            }
            Step::Empty => {
                // An empty batch adds nothing a reader could see, whether it is refused (as today,
                // with the empty-batch error) or taken as a no-op; which of the two, and the error
                // code, are recorded.  The read-back decides.
                let before = self.off();
                match self.log.append(&WriteBatch::default()) {
                    Ok(()) => self.notes.push("empty-batch:accepted".into()),
                    Err(e) => {
                        self.notes.push(if sst::is_empty_batch(&e) { "empty-batch:refused-with-empty-batch-error".into() } else { "empty-batch:refused-with-another-error".into() });
                    }
                }
                if self.off() != before {
                    self.notes.push("empty-batch:moved-builder-offset".into());
                }
                true
            }
            Step::Overfull { room, ts } => {
                let p = BLOCK as usize - *room as usize;
                let Some(shapes) = plan_exact(p, &[], *ts, 0) else { return true };
                let entries = self.entries_of(&shapes);
                let mut wb = match make_batch(&entries) {
                    Ok(wb) => wb,
                    Err(e) => {
                        if self.above_documented_max(p, "batch") {
                            return true;
                        }
                        self.o.fail("batch-entry-refused", format!("a write batch refused an entry that keeps the payload at {p} bytes: {e:?}"));
                        return false;
                    }
                };
                let sz = wb.approximate_size();
                // an entry of room+1.. bytes can not fit
                let extra = make_entry(self.tag(9999), &EntryShape { klen: 4, ts: *ts, vlen: Some(*room as u32 + 1), fill: 0 });
                match wb.put(&extra.key, extra.ts, extra.val.as_ref().unwrap()) {
                    Ok(()) => {
                        if wb.approximate_size() > BLOCK as usize {
                            self.o.fail("batch-over-limit-accepted", format!("a write batch grew to {} bytes, beyond the 1 MiB limit", wb.approximate_size()));
                            return false;
                        }
                        // it did fit after all (plan was inexact); the batch now holds it
                        let mut es = entries;
                        es.push(extra);
                        return self.append_batch(&wb, es);
                    }
                    Err(e) => {
                        if !sst::is_table_full(&e) {
                            self.notes.push("overfull-refused-with-another-error-than-table-full".into());
                        }
                        if wb.approximate_size() != sz {
                            self.o.fail("batch-over-limit-changed-batch", format!("a refused entry changed the batch's size from {sz} to {}", wb.approximate_size()));
                            return false;
                        }
                    }
                }
                self.notes.push("overfull-refused".into());
                // The refused entry must be in neither the batch's bytes nor its setsum (observable
                // through seal(); finding C12-A, repaired in /repo commit fee951b).  The batch is
                // used as it is after the refusal.
                let polluted = {
                    let mut tmp: Vec<u8> = Vec::new();
                    let mut l = LogBuilder::from_write(LogOptions::default(), &mut tmp).expect("from_write");
                    match l.append(&wb).and_then(|_| l.seal()) {
                        Ok((s, _)) => s != setsum_of(&entries),
                        Err(_) => false,
                    }
                };
                if polluted {
                    self.o.fail(
                        "refused-entry-still-in-setsum",
                        format!("a put that was refused with table-full (batch at {sz} of 1048576 bytes, entry of {} value bytes) left the batch's bytes unchanged but changed the batch's setsum: a log holding only this batch seals with a setsum that differs from the sum of its entries", *room as u32 + 1),
                    );
                    return false;
                }
                self.append_batch(&wb, entries)
            }
        }
    }
}

/// Run the steps against a builder; `None` when an oracle has already failed.
pub fn build<W: sst::log::Write>(log: LogBuilder<W>, steps: &[Step], seed: u64, o: &mut Outcome) -> Option<(Built, W)>
where
    LogBuilder<W>: MaybeFsync,
{
    build_with(log, steps, seed, None, o)
}

/// The same with a roll-over size (the one the builder's options carry).
pub fn build_with<W: sst::log::Write>(log: LogBuilder<W>, steps: &[Step], seed: u64, rollover: Option<u64>, o: &mut Outcome) -> Option<(Built, W)>
where
    LogBuilder<W>: MaybeFsync,
{
    let mut b = B { log, batches: vec![], seed, o, notes: vec![], rollover, refused: vec![] };
    for s in steps {
        if !b.step(s) {
            return None;
        }
    }
    let B { log, batches, o, notes, refused, .. } = b;
    match log.seal() {
        Ok((setsum, w)) => Some((Built { batches, setsum, notes, refused }, w)),
        Err(e) => {
            o.fail("seal-failed", format!("seal failed: {e:?}"));
            None
        }
    }
}

//////////////////////////////////////////////// reading ///////////////////////////////////////////

pub enum End {
    Clean,
    Error(String),
}

/// Drain a log image, comparing with the expected entries on the fly.  Returns the number of
/// entries that matched and how the iteration ended; `Err` describes the first wrong entry.
pub fn read_compare(bytes: &[u8], expect: &mut dyn Iterator<Item = &Entry>) -> Result<(usize, End), String> {
    read_compare_with(&LogOptions::default(), bytes, expect)
}

pub fn read_compare_with(opts: &LogOptions, bytes: &[u8], expect: &mut dyn Iterator<Item = &Entry>) -> Result<(usize, End), String> {
    let mut it = match LogIterator::from_reader(opts.clone(), Cursor::new(bytes)) {
        Ok(it) => it,
        Err(e) => return Ok((0, End::Error(format!("{e:?}")))),
    };
    let mut n = 0usize;
    loop {
        match it.next() {
            Ok(Some(kv)) => {
                let Some(e) = expect.next() else {
                    return Err(format!("entry #{n} (key {} ts {}) was read although only {n} entries were appended", vcore::gens::show(kv.key), kv.timestamp));
                };
                if kv.key != &e.key[..] || kv.timestamp != e.ts || kv.value != e.val.as_deref() {
                    return Err(format!(
                        "entry #{n} differs: read key {} ts {} value {}, appended key {} ts {} value {}",
                        vcore::gens::show(kv.key),
                        kv.timestamp,
                        kv.value.map(|v| format!("{} ({} bytes)", vcore::gens::show(v), v.len())).unwrap_or("tombstone".into()),
                        vcore::gens::show(&e.key),
                        e.ts,
                        e.val.as_ref().map(|v| format!("{} ({} bytes)", vcore::gens::show(v), v.len())).unwrap_or("tombstone".into()),
                    ));
                }
                n += 1;
            }
            Ok(None) => return Ok((n, End::Clean)),
            Err(e) => return Ok((n, End::Error(vcore::truncate(&format!("{e:?}"), 300)))),
        }
    }
}

/// Labels describing the layout; returns (split frames, groups).
pub fn layout_labels(groups: &[Group], o: &mut Outcome) -> usize {
    let mut splits = 0;
    let mut seen = std::collections::BTreeSet::new();
    for g in groups {
        if let Some((f, s)) = &g.split {
            splits += 1;
            seen.insert(match f.size {
                1 => "split:first-part-1-byte".to_string(),
                2..=3 => "split:first-part-2-3-bytes".to_string(),
                4..=40 => "split:first-part-4-40-bytes".to_string(),
                _ => "split:first-part-larger".to_string(),
            });
            if s.size <= 24 {
                seen.insert("split:second-part<=24-bytes".into());
            }
            if s.end > s.start + BLOCK {
                seen.insert("split:second-frame-runs-over-the-next-boundary".into());
            }
        } else if g.pad_before > 0 {
            seen.insert(match g.pad_before {
                1 => "pad:1-byte".to_string(),
                2..=9 => "pad:2-9-bytes".to_string(),
                x if x < HMAX => format!("pad:10-{}-bytes", HMAX - 1),
                _ => "pad:HEADER_MAX_SIZE-bytes".to_string(),
            });
        }
        if g.end % BLOCK == 0 && g.split.is_none() {
            seen.insert("exact-fit-ends-on-boundary".into());
        }
        if g.first_frame_start % BLOCK == 0 && g.first_frame_start > 0 && g.pad_before == 0 && g.split.is_none() {
            seen.insert("frame-starts-on-boundary-without-padding".into());
        }
        if g.payload == BLOCK {
            seen.insert("payload:1MiB".into());
        } else if g.payload >= sst::log::MAX_BATCH_SIZE {
            seen.insert("payload:>=MAX_BATCH_SIZE".into());
        } else if g.payload >= sst::MAX_BATCH_LEN as u64 {
            seen.insert("payload:>=MAX_BATCH_LEN".into());
        }
        if g.payload <= 10 {
            seen.insert("payload:<=10-bytes".into());
        }
    }
    for l in seen {
        o.label(l);
    }
    o.label(format!("split-frames:{}", bucket(splits as u64)));
    splits
}

pub fn bucket(n: u64) -> &'static str {
    match n {
        0 => "0",
        1 => "1",
        2..=4 => "2-4",
        5..=16 => "5-16",
        17..=64 => "17-64",
        _ => ">64",
    }
}

/// Check the file image against the appended batches: layout, offsets, entries.
/// Returns the groups when everything holds.
/// (Finding C12-C, repaired in /repo b0958d0: `LogBuilder::append` added the batch's setsum before
/// `_append` could refuse the batch by the roll-over size; a refused append must leave the seal
/// setsum alone.  regressions/C12/C12-C-*.json)
/// Check the sealed image against the appended batches.  Returns the frame groups and, per batch,
/// the file offset at which it is complete; `None` when an oracle failed or the layout could not be
/// followed (see `o`).
pub fn check_whole(opts: &LogOptions, bytes: &[u8], built: &Built, o: &mut Outcome) -> Option<(Vec<Group>, Vec<u64>)> {
    let total: usize = built.batches.iter().map(|b| b.entries.len()).sum();
    let mut exp = built.batches.iter().flat_map(|b| b.entries.iter());
    match read_compare_with(opts, bytes, &mut exp) {
        Err(m) => {
            o.fail("roundtrip-wrong-entry", m);
            return None;
        }
        Ok((n, End::Error(e))) => {
            o.fail("roundtrip-error", format!("reading an intact log of {} batches / {total} entries ({} bytes) failed after {n} entries: {e}", built.batches.len(), bytes.len()));
            return None;
        }
        Ok((n, End::Clean)) => {
            if n != total {
                o.fail("roundtrip-entries-missing", format!("reading an intact log of {} batches ended after {n} of {total} entries", built.batches.len()));
                return None;
            }
        }
    }
    let mut want = Setsum::default();
    for b in built.batches.iter() {
        want += setsum_of(&b.entries);
    }
    if want != built.setsum {
        let mut with_refused = want;
        for r in built.refused.iter() {
            with_refused += setsum_of(r);
        }
        if !built.refused.is_empty() && with_refused == built.setsum {
            o.fail(
                "refused-append-still-in-setsum",
                format!(
                    "seal returned setsum {}; the {} batches in the log sum to {}; the difference is exactly the {} batch(es) whose append was refused by the roll-over size",
                    built.setsum.hexdigest(),
                    built.batches.len(),
                    want.hexdigest(),
                    built.refused.len()
                ),
            );
            return None;
        } else {
            o.fail("seal-setsum", format!("seal returned setsum {} but the appended entries sum to {}", built.setsum.hexdigest(), want.hexdigest()));
            return None;
        }
    }
    // From here on: how the batches lie in the file.  The frame FORMAT (what a reader can walk) is
    // parsed independently; if the parser can not follow a log that reads back correctly, or the
    // writer's placement decisions differ from today's, that is recorded, not judged.  What is
    // judged is what a cut could show a reader: no frame may hold the end of one batch and part of
    // another.
    let groups = match parse_frames(bytes).and_then(|f| group_frames(&f)) {
        Ok(g) => g,
        Err(e) => {
            o.label("layout:independent-parser-can-not-follow-a-log-that-reads-back");
            let _ = e;
            return None;
        }
    };
    let payloads: Vec<u64> = built.batches.iter().map(|b| b.payload).collect();
    let ends = match batch_ends(&groups, &payloads) {
        Ok(e) => e,
        Err(e) => {
            o.fail("batch-straddles-frames", format!("the log reads back correctly but {e}: a cut behind that frame would show a partial batch"));
            return None;
        }
    };
    let builder_end = built.batches.last().map(|b| b.end).unwrap_or(0);
    o.label(if builder_end == bytes.len() as u64 || built.batches.is_empty() { "layout:builder-offset=file-size" } else { "layout:builder-offset-differs-from-file-size" });
    o.label(if check_placement(&groups).is_ok() { "layout:placement-as-documented" } else { "layout:placement-differs-from-the-documented-rule" });
    o.label(if groups.len() == built.batches.len() && ends.iter().zip(built.batches.iter()).all(|(e, b)| *e == b.end) {
        "layout:one-frame-group-per-batch,ends=builder-offsets"
    } else {
        "layout:frame-groups-or-their-ends-differ-from-the-builder's-account"
    });
    Some((groups, ends))
}

/// A roll-over size for a log of the given steps: mostly near a block boundary that the steps reach.
fn rollover_strategy() -> impl Strategy<Value = Option<u32>> {
    prop_oneof![
        23 => Just(None),
        2 => (1u32..4, -60i32..60).prop_map(|(b, d)| Some((b as i64 * BLOCK as i64 + d as i64) as u32)),
        1 => (100u32..70_000).prop_map(Some),
    ]
}

fn seq_opts() -> impl Strategy<Value = OptShape> {
    (opt_shape(), rollover_strategy()).prop_map(|(mut o, r)| {
        o.rollover_size = r;
        o
    })
}

//////////////////////////////////////////// part 1: round trip ////////////////////////////////////

#[derive(Clone, Debug, Serialize, Deserialize)]
pub struct SeqCase {
    pub steps: Vec<Step>,
    pub seed: u32,
    /// write through `LogBuilder<File>` and read with the path-based functions as well
    pub via_file: bool,
    #[serde(default)]
    pub opts: OptShape,
}

pub struct RoundTrip;

impl Property for RoundTrip {
    type Case = SeqCase;
    fn name(&self) -> String {
        "sequential-roundtrip".into()
    }
    fn cases(&self, tier: Tier) -> u64 {
        tier.pick(260, 2800)
    }
    fn max_shrink_iters(&self) -> u32 {
        400
    }
    fn strategy(&self, ctx: &Ctx) -> BoxedStrategy<SeqCase> {
        let rounds = ctx.tier.pick(3, 5);
        (steps_strategy(rounds, false), any::<u32>(), prop::bool::weighted(0.25), seq_opts()).prop_map(|(steps, seed, via_file, opts)| SeqCase { steps, seed, via_file, opts }).boxed()
    }
    fn run(&self, ctx: &Ctx, c: &SeqCase) -> Outcome {
        let mut o = Outcome::pass();
        let opts = c.opts.build();
        let rollover = c.opts.rollover_size.map(|r| r as u64);
        let (built, bytes, path) = if c.via_file {
            let dir = ctx.fresh_dir("seq");
            let path = dir.join("log");
            let log = match LogBuilder::new(opts.clone(), &path) {
                Ok(l) => l,
                Err(e) => {
                    o.inconclusive = true;
                    o.label(format!("harness: cannot create log file: {e:?}"));
                    return o;
                }
            };
            let Some((built, file)) = build_with(log, &c.steps, c.seed as u64, rollover, &mut o) else {
                let _ = std::fs::remove_dir_all(dir);
                return o;
            };
            drop(file);
            let bytes = std::fs::read(&path).unwrap_or_default();
            (built, bytes, Some((dir, path)))
        } else {
            let mut buf: Vec<u8> = Vec::new();
            let log = LogBuilder::from_write(opts.clone(), &mut buf).expect("from_write");
            let Some((built, _)) = build_with(log, &c.steps, c.seed as u64, rollover, &mut o) else { return o };
            (built, buf, None)
        };
        let notes: std::collections::BTreeSet<&String> = built.notes.iter().collect();
        for n in notes {
            o.label(n.clone());
        }
        c.opts.labels(&mut o);
        if rollover.is_some() {
            o.label("opts:rollover-size-set");
        }
        let groups = check_whole(&opts, &bytes, &built, &mut o);
        if let Some((dir, path)) = path {
            if !o.failed() {
                o.label("via-file");
                let mut want = Setsum::default();
                for b in built.batches.iter() {
                    want += setsum_of(&b.entries);
                }
                // helper readers: recorded, not judged (outside the property's sentences)
                o.label(match sst::log::log_to_setsum(opts.clone(), &path) {
                    Ok(s) if s == want => "log_to_setsum:equals-sum-of-entries",
                    Ok(_) => "log_to_setsum:DIFFERS-from-sum-of-entries",
                    Err(_) => "log_to_setsum:fails-on-intact-log",
                });
                let last_end = groups.as_ref().and_then(|(g, _)| g.last().map(|g| g.end));
                match sst::log::truncate_final_partial_frame(opts.clone(), &path) {
                    Ok(None) => o.label("tfpf-on-intact-log:none"),
                    Ok(Some(n)) => match last_end {
                        // truncating an intact log there drops a complete batch
                        Some(le) if n < le => o.fail("tfpf-loses-complete-batch", format!("truncate_final_partial_frame on an intact log of {} bytes names {n}, which cuts into the complete batch ending at {le}", bytes.len())),
                        _ => o.label("tfpf-on-intact-log:names-an-offset-behind-the-last-batch"),
                    },
                    Err(_) => o.label("tfpf-on-intact-log:error"),
                }
            }
            let _ = std::fs::remove_dir_all(dir);
        }
        let Some((groups, _)) = groups else { return o };
        let splits = layout_labels(&groups, &mut o);
        o.label(format!("batches:{}", bucket(built.batches.len() as u64)));
        o.label(format!("blocks:{}", bytes.len() as u64 / BLOCK + 1));
        o.nontrivial = splits >= 1;
        o
    }
}

//////////////////////////////////////////// part 2: truncation ////////////////////////////////////

#[derive(Clone, Debug, Serialize, Deserialize)]
pub struct CutCase {
    pub steps: Vec<Step>,
    pub seed: u32,
    /// sampled cut positions (selectors over the file length) in addition to the enumerated ones
    pub cuts: Vec<u16>,
    #[serde(default)]
    pub opts: OptShape,
}

pub struct Truncation;

/// The cut lengths examined for one log.
fn cut_set(len: u64, frames: &[Frame], groups: &[Group], sampled: &[u16], budget: usize) -> (Vec<u64>, bool) {
    let mut must: Vec<u64> = vec![];
    let dense = |lo: u64, hi: u64, must: &mut Vec<u64>| {
        let hi = hi.min(len);
        if hi <= lo {
            return;
        }
        if hi - lo <= 700 {
            must.extend(lo..hi);
        } else {
            must.extend(lo..lo + 40);
            must.extend(hi - 40..hi);
            let step = ((hi - lo - 80) / 24).max(1);
            let mut x = lo + 40;
            while x < hi - 40 {
                must.push(x);
                x += step;
            }
        }
    };
    // every byte of every split batch (header, first part, padding, second header, second part)
    for g in groups.iter().filter(|g| g.split.is_some()) {
        let (f, s) = g.split.as_ref().unwrap();
        dense(g.start, f.end, &mut must);
        dense(f.end, s.start + s.hdr_len + 8, &mut must);
        dense(s.start + s.hdr_len + 8, s.end + 1, &mut must);
    }
    // padding that precedes whole frames, and the frame header after it
    for g in groups.iter().filter(|g| g.split.is_none() && g.pad_before > 0) {
        dense(g.start.saturating_sub(2), g.first_frame_start + 16, &mut must);
    }
    // the end of every frame group (a batch laid out as several groups would show here)
    must.extend(groups.iter().map(|g| g.end));
    // block boundaries
    let mut b = BLOCK;
    while b <= len + 3 {
        dense(b.saturating_sub(3), b + 4, &mut must);
        b += BLOCK;
    }
    // the last two frames (three when they are small)
    let n = frames.len();
    let tail_from = if n >= 3 && len - frames[n - 3].start <= 600 { frames[n - 3].start } else if n >= 2 { frames[n - 2].start } else { 0 };
    let tail_from = frames.iter().find(|f| f.start == tail_from).map(|f| f.start - f.pad_before).unwrap_or(0);
    dense(tail_from, len, &mut must);
    must.push(0);
    for s in sampled {
        must.push(sel(*s, len as usize) as u64);
    }
    must.retain(|c| *c < len);
    must.sort();
    must.dedup();
    let complete = must.len() <= budget;
    if !complete {
        // keep the budget, evenly thinned (the enumerated regions stay dense at their edges)
        let k = must.len();
        must = (0..budget).map(|i| must[i * k / budget]).collect();
        must.dedup();
    }
    (must, complete)
}

impl Property for Truncation {
    type Case = CutCase;
    fn name(&self) -> String {
        "truncation".into()
    }
    fn cases(&self, tier: Tier) -> u64 {
        tier.pick(48, 420)
    }
    fn max_shrink_iters(&self) -> u32 {
        200
    }
    fn strategy(&self, ctx: &Ctx) -> BoxedStrategy<CutCase> {
        let rounds = ctx.tier.pick(1, 2);
        (steps_strategy(rounds, true), any::<u32>(), prop::collection::vec(any::<u16>(), 0..12), opt_shape()).prop_map(|(steps, seed, cuts, opts)| CutCase { steps, seed, cuts, opts }).boxed()
    }
    fn run(&self, ctx: &Ctx, c: &CutCase) -> Outcome {
        let mut o = Outcome::pass();
        let opts = c.opts.build();
        c.opts.labels(&mut o);
        let mut bytes: Vec<u8> = Vec::new();
        let log = LogBuilder::from_write(opts.clone(), &mut bytes).expect("from_write");
        let Some((built, _)) = build(log, &c.steps, c.seed as u64, &mut o) else { return o };
        let Some((groups, ends)) = check_whole(&opts, &bytes, &built, &mut o) else { return o };
        let frames = parse_frames(&bytes).unwrap_or_default();
        let splits = layout_labels(&groups, &mut o);
        let len = bytes.len() as u64;
        let budget = ctx.tier.pick(900, 2500);
        let (cuts, complete) = cut_set(len, &frames, &groups, &c.cuts, budget);
        if !complete {
            o.label("cut-set-thinned");
        }
        // (a batch is complete where the frame that holds its last byte ends; taken from the frames
        // found in the file, not from the builder's offsets)
        let mut in_split = 0u64;
        let (mut clean, mut errs) = (0u64, 0u64);
        for &cut in cuts.iter() {
            let k = ends.partition_point(|e| *e <= cut);
            let want: usize = built.batches[..k].iter().map(|b| b.entries.len()).sum();
            let mut exp = built.batches.iter().flat_map(|b| b.entries.iter());
            let r = vcore::guard(|| read_compare_with(&opts, &bytes[..cut as usize], &mut exp));
            let place = || {
                let g = groups.iter().find(|g| g.start <= cut && cut < g.end);
                match g {
                    Some(g) => match &g.split {
                        Some((f, s)) => format!(
                            "inside split batch #{k} (first frame {}..{}, padding to {}, second frame {}..{})",
                            f.start, f.end, s.start, s.start, s.end
                        ),
                        None => format!("inside batch #{k} (padding {} bytes, frame {}..{})", g.pad_before, g.first_frame_start, g.end),
                    },
                    None => "at the end".to_string(),
                }
            };
            match r {
                Err(f) => {
                    o.nontrivial = true;
                    o.fail(f.signature, format!("reading the log cut at byte {cut} of {len} ({}) panics: {}", place(), f.message));
                    return o;
                }
                Ok(Err(m)) => {
                    o.nontrivial = true;
                    o.fail("cut-invented-entry", format!("log cut at byte {cut} of {len} ({}): {m}", place()));
                    return o;
                }
                Ok(Ok((n, end))) => {
                    if n != want {
                        o.nontrivial = true;
                        let kind = if n < want { "cut-loses-complete-batch" } else { "cut-yields-partial-batch" };
                        o.fail(
                            kind,
                            format!(
                                "log cut at byte {cut} of {len} ({}): {k} batches ({want} entries) lie completely before the cut, reading yields {n} entries and then {}",
                                place(),
                                match end {
                                    End::Clean => "ends".to_string(),
                                    End::Error(e) => format!("fails with {e}"),
                                }
                            ),
                        );
                        return o;
                    }
                    match end {
                        End::Clean => clean += 1,
                        End::Error(_) => errs += 1,
                    }
                }
            }
            if groups.iter().any(|g| g.split.is_some() && g.first_frame_start < cut && cut < g.end) {
                in_split += 1;
            }
        }
        // A crash between the two writes of a split frame: the file ends with the FIRST frame
        // (with or without its padding).  truncate_final_partial_frame must then name a point that
        // keeps every complete batch and leaves a log that reads cleanly.
        let mut tf = 0;
        for (gi, g) in groups.iter().enumerate() {
            let Some((f, s)) = &g.split else { continue };
            if tf >= 3 {
                break;
            }
            tf += 1;
            let dir = ctx.fresh_dir("cut");
            let path = dir.join("log");
            for cut in [f.end, (f.end + s.start) / 2, s.start] {
                if std::fs::write(&path, &bytes[..cut as usize]).is_err() {
                    o.inconclusive = true;
                    break;
                }
                let want_off = if gi == 0 { 0 } else { groups[gi - 1].end };
                let k = ends.partition_point(|e| *e <= want_off);
                let want: usize = built.batches[..k].iter().map(|b| b.entries.len()).sum();
                match vcore::guard(|| sst::log::truncate_final_partial_frame(opts.clone(), &path)) {
                    Err(fl) => {
                        o.fail(fl.signature, format!("truncate_final_partial_frame panics on a log that ends after the first half of a split frame (cut {cut}): {}", fl.message));
                    }
                    Ok(Ok(Some(off))) => {
                        // Judged by its consequence only: the log truncated where the function says
                        // must hold every complete batch and nothing torn.
                        let keep = off.min(cut) as usize;
                        let mut exp = built.batches.iter().flat_map(|b| b.entries.iter());
                        match read_compare_with(&opts, &bytes[..keep], &mut exp) {
                            Ok((n, _)) if n < want => {
                                o.fail("tfpf-loses-complete-batch", format!("log ends after the first half of split frame group #{gi} (cut {cut}); truncate_final_partial_frame says {off}; the log truncated there yields {n} of the {want} entries of the {k} complete batches (the last one ends at {want_off})"));
                            }
                            Ok((n, End::Clean)) if n == want => {
                                o.label(if off == want_off { "tfpf:names-end-of-last-complete-batch" } else { "tfpf:names-another-offset-that-keeps-the-complete-batches-and-nothing-torn" });
                            }
                            other => {
                                o.fail(
                                    "tfpf-keeps-torn-batch",
                                    format!(
                                        "log ends after the first half of split frame group #{gi} (cut {cut}); truncate_final_partial_frame says {off}; the log truncated there still does not read as the {k} complete batches and a clean end: {}",
                                        match other {
                                            Ok((n, End::Clean)) => format!("{n} entries, {want} expected"),
                                            Ok((n, End::Error(e))) => format!("{n} entries, then {e}"),
                                            Err(m) => m,
                                        }
                                    ),
                                );
                            }
                        }
                    }
                    Ok(Ok(None)) => o.label("tfpf:none-for-torn-split"),
                    Ok(Err(_)) => o.label("tfpf:error-for-torn-split"),
                }
                if o.failed() {
                    break;
                }
            }
            let _ = std::fs::remove_dir_all(dir);
            if o.failed() {
                o.nontrivial = true;
                return o;
            }
        }
        o.label(format!("cuts:{}", match cuts.len() { 0..=99 => "<100", 100..=399 => "100-399", 400..=899 => "400-899", _ => ">=900" }));
        o.label(format!("cuts-in-split:{}", bucket(in_split)));
        if clean > 1 {
            o.label("some-cuts-end-cleanly");
        }
        if errs > 0 {
            o.label("some-cuts-end-with-error");
        }
        let _ = splits;
        o.nontrivial = in_split >= 1;
        o
    }
}
