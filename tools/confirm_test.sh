#!/bin/bash
# usage: confirm_test.sh <worktree> <crate> <test-name> <src-path-to-stash>
# Confirms a seeded change's demonstration (an integration test file under _out/demo/): runs it with
# the change applied and with the change stashed, then the crate's own lib tests with the change.
set -u
wt="${1:?}"; crate="${2:?}"; t="${3:?}"; src="${4:?}"
cd "$wt" || exit 2
mkdir -p "$crate/tests" && cp "_out/demo/$t.rs" "$crate/tests/"
echo "--- with change"; cargo test --offline -p "$crate" --test "$t" -- --test-threads 1 2>&1 | grep -E "^test result"
git diff -- "$src" > "_out/.confirm.diff"; git checkout -q -- "$src"   # (not git stash: the stash is shared by all worktrees)
echo "--- without change"; cargo test --offline -p "$crate" --test "$t" -- --test-threads 1 2>&1 | grep -E "^test result"
git apply "_out/.confirm.diff"; rm -f "_out/.confirm.diff"
rm -f "${wt:?}/${crate:?}/tests/${t:?}.rs"; rmdir "$crate/tests" 2>/dev/null
echo "--- lib tests with change"; cargo test --offline -p "$crate" --lib 2>&1 | grep -E "^test result"
git status --short | grep -v "^??"
