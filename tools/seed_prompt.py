import sys
ID, NAME, crate_desc, test_pkgs, demo_crate, avoid, ideas, specific, conc = sys.argv[1:10]
wt=f"/tmp/mut-{NAME}"
conc_txt = " For a concurrency bug: a stress test that detects it within <= 60 s on 16 cores, run >= 3 times each way." if conc=="1" else ""
print(f"""You are a senior engineer stress-testing a verification tool that you cannot see. Your task is to SEED ONE REALISTIC BUG into a Rust code base so that a stated behavioural property no longer holds, while the code still compiles and the existing test suite still passes, and to demonstrate the breakage.

Work ONLY in the git worktree at {wt} (a checkout of the monorepo rescrv/blue; the code of interest: {crate_desc}). Do not read or write anything under /verif, /root/.vp or /repo, and do not use the network (there is none; use `cargo ... --offline`). The property text is in {wt}/_out/PROPERTY.txt — read it first, then read the source files it concerns.

Requirements for the change:
1. It modifies production code only, is small (1–12 lines), and looks like a plausible mistake a maintainer could make in a refactor or micro-optimisation. {avoid} Choose a DIFFERENT area, for example: {ideas}. No `panic!`/`unimplemented!`/obviously malicious code.
2. It must need something SPECIFIC to manifest — {specific} — NOT simple use.
3. The code still compiles and the EXISTING tests still pass: run `cargo test --offline {test_pkgs}`. If an existing test fails, pick a different change (and note in meta.json which candidates the existing suite caught).
4. Demonstration under {wt}/_out/demo/: a NEW test file `<name>.rs` that can be copied into `{demo_crate}/tests/`, plus README.md with exact commands, that FAILS with your change applied and PASSES on the unmodified code; public APIs only.{conc_txt} Run it both ways (`git diff > _out/patch.diff; git checkout -- <crate dirs>; ...; git apply _out/patch.diff`) and record the outputs.
5. Deliverables, all under {wt}/_out/: `patch.diff` (git diff of production code only), `demo/` (+ README.md), `meta.json` {{"property": "{ID}", "summary": "...", "needs_to_manifest": "...", "files_touched": [...], "demo_crate": "{demo_crate}", "demo_test": "<name>", "commands_run": [...], "existing_tests": "...", "demo_fails_with_change": true/false, "demo_passes_without_change": true/false}}. Leave the worktree with your change APPLIED (uncommitted) and demo files only under _out/ (remove anything you copied into a tests/ directory).

Prefer subtle over blatant, and a silently wrong result over a visible error. In your final reply summarise the change, what it needs to manifest, and the evidence (commands + outcomes).""")
