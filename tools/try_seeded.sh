#!/bin/bash
# usage: tools/try_seeded.sh <worktree> <ID> [<ID> ...]  — run checks (quick) against a mutated worktree
WT="$1"; shift
for ID in "$@"; do
  echo "=== $ID against $WT"
  /verif/tools/mutant_run.sh "$WT" "$ID" quick 2>&1 | grep -E "tier=|VIOLATION|signature=|INCONCLUSIVE|BUILD FAILED" | cut -c1-420 | head -8
done
