#!/usr/bin/env python3
"""usage: keep_seeded.py <worktree> <name> <verdict-json>
Copies a confirmed seeded change (patch.diff, demo/, meta.json) from a mutation worktree into
/verif/seeded/<name>/ and merges my own confirmation record into meta.json."""
import json, os, shutil, sys
wt, name, verdict = sys.argv[1], sys.argv[2], json.loads(sys.argv[3])
src = os.path.join(wt, "_out")
dst = os.path.join("/verif/seeded", name)
os.makedirs(dst, exist_ok=True)
shutil.copy(os.path.join(src, "patch.diff"), os.path.join(dst, "patch.diff"))
if os.path.isdir(os.path.join(dst, "demo")):
    shutil.rmtree(os.path.join(dst, "demo"))
shutil.copytree(os.path.join(src, "demo"), os.path.join(dst, "demo"), ignore=shutil.ignore_patterns("target", "*.so", "*.o"))
shutil.copy(os.path.join(src, "PROPERTY.txt"), os.path.join(dst, "PROPERTY.txt"))
meta = json.load(open(os.path.join(src, "meta.json")))
meta["confirmed_by_me"] = verdict
json.dump(meta, open(os.path.join(dst, "meta.json"), "w"), indent=1)
print("kept", dst)
