#!/usr/bin/env python3
"""Regenerates /verif/MANIFEST.json from the table below and validates it (and any evidence files)
against the schemas in /root/.vp when they are present."""
import json, os, subprocess, sys

HERE = os.path.dirname(os.path.dirname(os.path.abspath(__file__)))

def repo_commits():
    try:
        out = subprocess.check_output(["git", "-C", "/repo", "log", "--format=%H %s"], text=True)
    except Exception:
        return []
    return [l.split()[0] for l in out.splitlines() if " verif hooks" in l or l.split(" ", 1)[1].startswith("verif hooks")]

CHECKS = {
    "C14": dict(
        engine="pbt",
        category="exploration",
        text="Generated-input search: millions of proptest-generated multisets and setsum triples per run are checked against the algebraic laws, a u128 arithmetic reference and an independent Python hashlib reference. This samples an infinite input space densely around the column edge values (0, 1, p-1, p, p+1, 2^32-1); it cannot prove the laws, but the laws are per-column modular identities, so edge-biased sampling is the right level. Items mined to have a SHA3 word at or above a column prime are part of the generator; for every operand, canonical or not, results of + and - must be canonical (documented add_state formula) and a - a must be the empty setsum.",
        design_ref="DESIGN.md §5 C14",
        note="Trusts SHA3-256 (sha3 crate, Python hashlib). Non-canonical digests are compared as residues.",
        technique="property-based testing (proptest) with reference-model and differential (Python) oracles",
    ),
}

CHECKS["C10"] = dict(
    engine="pbt",
    category="exploration",
    text="Generated-input search with a vector reference cursor: about a million generated (table, builder options, cursor program) cases per quick run for blocks and real sst files, compared after every cursor call, plus walks, timestamped lookups, metadata and rejected-input injection. The input space (entry sequences x options x programs) is unbounded, so sampling with edge-biased generators is the appropriate level. Added parts: SstMultiBuilder round trip with size roll-over and split hints (concatenation of the output files equals the input, per-file checks, order across files, invalid offers refused at every position incl. first entry of a new file); refused offers leave no trace (byte-wise comparison with a twin built from the accepted entries); keys / values at exactly the maximal sizes through put and del. The caller's tombstone flag before each load is true or false as a function of the arguments; part boundary-counts sweeps the number of entries through 32 and 4096 restart points (stand-alone block, one-block table, index block of a table with one entry per block).",
    design_ref="DESIGN.md §5 C10",
    note="Reference semantics are the sentinel semantics documented on sst::Cursor; programs start with an absolute seek; (empty key, u64::MAX) is never the first entry.",
    technique="property-based testing (proptest), model-based comparison with a reference cursor after every call",
)
CHECKS["C11"] = dict(
    engine="pbt",
    category="exploration",
    text="Generated-input search: each combinator (merging, concatenating, pruning, bounds, lazy, and the Bounds(Pruning(Merging(Concat(Lazy),Block))) stack the store uses) is driven by generated cursor programs with forced direction reversals over generated child tables and compared after every call with a vector reference built directly from the definition. Programs may start on the freshly constructed cursor; Block::range_scan / Sst::range_scan compared with the reference restricted to the range.",
    design_ref="DESIGN.md §5 C11",
    note="Children respect the combinators' preconditions (no (key,timestamp) shared between merging children; concatenated children ordered, overlapping at most in one boundary key).",
    technique="property-based testing (proptest), model-based comparison with a reference cursor after every call",
)

STORE_NOTE = "Single-threaded step driving through the rescrv_blue_verif hooks (flush / compaction / verifier are ops of the history); batches hold distinct keys; ingested ssts carry ascending timestamps; known findings R-D (reopen) and R-R (verifier after same-digest re-creation) are excluded by construction and counted."
CHECKS["C01"] = dict(
    engine="store-driver",
    category="exploration",
    text="Model-based generated-history search: thousands of generated histories per quick run over both store surfaces and generated option settings drive the real store through flushes, trivial moves, merges, GCs, verifier passes and reopen (all 16 levels get occupied), and every universe key is read back against a sequential map model after every checked operation. Histories x configurations is unbounded, so generated exploration with measured shape coverage is the right level; it cannot show absence. Also: LsmTree::get cross-checked with load; reads in the middle of a memtable flush (guard-only yield points: data only in the immutable memtable / in immutable memtable and new sst); the same directory switched between the KeyValueStore and LsmTree surfaces inside a history. Keys of the documented maximum length (16 KiB) and 32 KiB values are part of the key / value generators; external ssts may give a never-written key an old timestamp (nested timestamp ranges in level 0); a put may be issued and acknowledged in the middle of a flush, right after the memtable switch.",
    design_ref="DESIGN.md §5 C01",
    note=STORE_NOTE,
    technique="stateful property-based testing (proptest op sequences + interpreter) against a sequential map model",
)
CHECKS["C03"] = dict(
    engine="store-driver",
    category="exploration",
    text="The C01 history search plus scan probes: generated bounds pairs (all nine bound-kind combinations, empty and inverted ranges) and generated cursor programs are compared call by call with a reference cursor over the model's live keys; each probe also walks the whole range forward and backward and cross-checks every returned key with a point read. Also: full scans in the middle of a memtable flush and surface switching as in C01.",
    design_ref="DESIGN.md §5 C03",
    note=STORE_NOTE + " Scan timestamps are not compared (assigned by the store).",
    technique="stateful property-based testing with a reference-cursor oracle and a scan-vs-get differential",
)

CHECKS["C05"] = dict(
    engine="store-driver",
    category="exploration",
    text="Store level: every compaction step of generated histories is bracketed by a full multi-version dump of all live ssts; non-GC steps must conserve the multiset exactly, GC steps may only drop entries the configured policy does not require (independent reading of the documented policy language) and never the deciding value of a key. Unit level: hundreds of thousands of generated (policy, per-key version pattern, now) cases drive GarbageCollectionPolicy::collector directly against the same independent reading. Also after every compaction step: level-order invariant (no version of a key in a deeper level is newer than one in a shallower level) and no-resurrection (a current read of every key returns what it returned before the collection, or nothing), at unit and store level.",
    design_ref="DESIGN.md §5 C05",
    note=STORE_NOTE + " Retaining more than required is allowed (sst::gc module docs), so the GC oracle is one-directional on purpose. Which step is a GC is reported by a guard-only hook.",
    technique="stateful property-based testing with a multiset-conservation invariant and a reference policy evaluator",
)
CHECKS["C07"] = dict(
    engine="store-driver",
    category="exploration",
    text="Deterministic half of the property: generated histories open up to three scan cursors, advance them with generated programs and keep them across writes, rollovers and flushes, compactions, GCs and verifier unlinks; everything a cursor returns is compared with a reference cursor over the model snapshot taken at open time, errors are violations, and a guard-only allocation registry in skipfree reports any dereference of a freed node; a process abort is attributed to the running case by the parent. Configurations include sst cache sizes 0 and 8 KiB so retired files are not masked by cached descriptors.",
    design_ref="DESIGN.md §5 C07",
    note=STORE_NOTE + " Cursors are closed before reopen. Thread interleavings are not owned by this check (see C06).",
    technique="stateful property-based testing with snapshot-model comparison and a use-after-free detector hook",
)
CHECKS["C08"] = dict(
    engine="store-driver",
    category="exploration",
    text="Generated histories with many verifier passes, reopens (orphan clean-up) and cursors held across retirements; after every operation every sst named by the live tree and by an independent parse of the manifest must exist in sst/, a verifier pass must not change sst/ nor remove the live MANIFEST, and the full read-back must still equal the model. A verifier pass may unlink only trash ssts whose removal is recorded in a manifest fragment it processed in that pass. Every recovered image of the crash part gets follow-up writes, flushes, compaction and another reopen; the crash part kills the process at the calls of verifier passes, reopens and trash handling, and at every call from a move into trash (a flushed log, a compacted sst) to the end of the API call that made it, and at the manifest's own calls; on every crash / error image, before recovery, every sst named by the complete transactions of the live MANIFEST must be present in sst/. Part threaded-files runs several ingesting threads against 1-3 compaction threads and judges the files at quiescence: every sst the committed manifest lists is in sst/ and the directory opens again.",
    design_ref="DESIGN.md §5 C08",
    note=STORE_NOTE + " Crash points inside verifier passes and trash moves are explored by the C02 fault enumerator.",
    technique="stateful property-based testing with a file-presence invariant and model read-back",
)
CHECKS["C20"] = dict(
    engine="store-driver",
    category="exploration",
    text="Safety form of the liveness property over generated states: with small stall / mandatory thresholds and tight compaction limits, whenever the store reports that ingest must stall, compaction steps must lower level 0 below the threshold before the selector goes idle (an idle selector while stalled with nothing in progress is the violation; the step bound is NUM_LEVELS x (live files + 1) + 16 because trivial moves are preferred). 'Eventually' itself is out of reach of this technique. Tree-surface ingests of the step driver run on a helper thread: an ingest that parks on the write stall although the store reports no stall, with the selector idle, is a writer that waits for ever. Part rejected-writes: writers and clients whose batches the store must refuse (oversize key or value through WriteBatch + write) share one store; every client must finish (exact all-parked verdict from /proc task states).",
    design_ref="DESIGN.md §5 C20",
    note="Single-threaded step driving; thread-level lost wake-ups are not decided here.",
    technique="stateful property-based testing with a bounded-relief invariant over generated configurations",
)

CHECKS["C18"] = dict(
    engine="conc",
    category="exploration",
    text="Four generated-input parts: (1) the LRU cache against a sequential model over generated op sequences with arbitrary sizes and capacities (two admissible recency models where the docs are silent, plus model-independent size invariants and a final drain); (2) the wait list against a single-threaded model of link / unlink-in-any-order / notify across ring wrap-around; (3) the wait list under 2-9 real threads following the two unlink protocols its callers use, including a thread that holds almost all 65 536 slots; (4) the coalescing queue under 2-16 real threads with a harness core that batches always / never / up to n / by input, checking own-output, exactly-once, policy and an entry-order bracket. A stall is declared only by an exact detector (every worker parked in an untimed futex wait with unchanged context-switch counts and no progress); a wall-clock budget only yields 'inconclusive'. Part coalescing-queue-handoff: batch limit b with exactly b + 1 callers and 40 000 - 60 000 undelayed calls each (the hand-over of the head position between a served caller and the caller behind it, a few hundred thousand times per case).",
    design_ref="DESIGN.md §5 C18",
    note="Thread schedules belong to the OS (perturbed by generated delays and CPU pinning); a violation found is exact, absence is weak evidence. Replays of threaded cases re-run the case up to 50 times.",
    technique="property-based testing: sequential model (LRU, wait list) and generated multi-threaded stress with invariant oracles and an exact all-parked stall detector",
)

CHECKS["C02"] = dict(
    engine="sysshim",
    category="fault_enumeration",
    text="Fault enumeration over generated histories: an in-binary libc shim numbers every file-system mutating call the store issues; each history is re-executed in a child process and killed before call k (every k in the thorough tier and for short histories, a class-stratified sample otherwise) under persistence models (a), (b) lose-all and (b) torn, and with call k failing with EIO / ENOSPC; a fresh process reopens the image and its contents (point reads and full scan, before and after a verifier pass and another reopen) must equal the model after the acknowledged ops, optionally plus the one in-flight op. The space of crash points of one history is enumerated exhaustively in the thorough tier; histories and configurations are sampled. Fault modes are drawn independently of the call index (all modes at every point in the thorough tier); a fault inside an operation that still reports success kills the process right after that operation (a swallowed error cannot be masked by a later sync); go-on modes: the error is reported, the history continues and the process dies at its end - per key the recovered value must be that of the last acknowledged write or of a later failed one; every recovered image gets follow-up writes, flushes, compaction steps and another reopen (life after recovery). Further fault modes: the history goes on after a reported EIO / ENOSPC / short write (what was acknowledged before or after the error must survive the final power loss), a short write that is not followed by any error, and a second crash in the middle of the recovery. Histories contain puts issued in the middle of a flush (two write-ahead logs with unflushed data at the crash).",
    design_ref="DESIGN.md §5 C02",
    note="Directory-entry durability is not modelled (neither persistence model of the property loses directory operations). The shim relies on std and sst calling libc through the PLT (verified: counts and traces are produced). Recovered images satisfying the R-D predicate are excluded and counted.",
    technique="fault injection / crash-point enumeration over property-based generated histories, with a sequential model oracle",
)
CHECKS["C13"] = dict(
    engine="sysshim",
    category="fault_enumeration",
    text="Six parts over generated edit / rollover / reopen sequences with adversarial strings: a fault-free model comparison (plus Manifest::verify and an independent fragment-chain parser), truncation of the live MANIFEST at every byte (small files) or generated bytes, and crash enumeration under the libc shim before every mutating call of apply and rollover in persistence models (a), (b) lose-all, (b) torn; reopening must yield a prefix state that contains every acknowledged edit, or (cuts inside a write only) an explicit error. Every cut / crash image that opens also gets two follow-up edits and two more reopens (life after recovery); edits include removals of absent strings and remove-and-re-add of a present string. Part 4 makes every mutating call in turn report EIO / ENOSPC (writes also: a short write, then ENOSPC) and lets the history go on on the same handle: every later reopen must show the edits that returned Ok plus each failed edit wholly or not at all. Part 5 hands the lock from one process to another: a second process waits in fcntl(F_SETLKW) while the holder applies more edits; it must open exactly what the holder left. Part 6: a second open of a root that is still open in the same process is normally refused (not judged); should it succeed, every edit that returned Ok through either handle must survive a reopen.",
    design_ref="DESIGN.md §5 C13",
    note="Info keys are ASCII; '+' and '-' as info keys are out of domain; directory operations are durable once they return.",
    technique="property-based testing against a set/map model plus crash-point and truncation enumeration",
)
CHECKS["C16"] = dict(
    engine="pbt",
    category="exploration",
    text="Generated pairs and triples of tuples correlated by construction (equal prefix, then differ; integers at byte-length and sign boundaries; strings/bytes with NUL, 0xff, empty, prefix pairs) under generated schemas, for both formats: encoded order equals tuple order with per-element direction, extensions stay contiguous, decode(encode) is the identity (parser, iterator, schema, derive), and arbitrary or mutated bytes never panic the decoders. An exhaustive family of 219 024 short descending-string pairs pins down known finding R-N exactly. Extension APIs (append / extend / builders) must be byte-identical to from-scratch encodings; derived TryFrom<TupleKey> on damaged and arbitrary bytes; u8 / u16 / i8 / i16 elements of tuple_key2 with cross-width parsers. After an error the tuple_key2 parser is asked for offset, remaining, is_empty and finish (no panic).",
    design_ref="DESIGN.md §5 C16",
    note="tuple_key has no bytes type and fixed-width integers; tuple_key2 has no directions; tuples are compared under identical schemas only. R-N (descending strings in tuple_key) is excluded by an independent predicate and counted.",
    technique="property-based testing (proptest) with order / round-trip oracles and a small exhaustive family",
)

CHECKS["C15"] = dict(
    engine="pbt",
    category="exploration",
    text="Each value is generated once as a dynamic tree and lowered both to a family of 15 derived message types (every scalar field type, bytes and fixed-size bytes, strings, Option, Vec, nesting to depth 4, a recursive tree, enums with unit / unnamed / named variants, Result) and to an independent wire encoder; oracles: pack_sz equals the bytes written by every pack variant, bytes equal the reference encoding, unpack returns an equal value (floats bitwise); unknown fields of every wire type spliced at field boundaries of any depth do not disturb known fields; arbitrary and structurally mutated bytes never panic and accepted values re-encode stably; every 1..10-byte varint (canonical or not) decodes identically on the fast and the slow path; Tag / FieldNumber / WireType / FieldIterator agree with an independent wire walker. A libFuzzer target (fuzz/c15_decode_any) extends the arbitrary-bytes part in the thorough workflow. Concatenated encodings enc(a) ++ enc(b) must decode to the protocol-buffers merge; string x PathBuf, tuple and unit structs, [u8; 64] in named variants; splices before and after oneof variant fields (before: only no-panic and value-undisturbed-if-accepted).",
    design_ref="DESIGN.md §5 C15",
    note="The message family is fixed at compile time (derive macro). Merge semantics of duplicated known fields and payloads above ~16 KiB are not exercised.",
    technique="property-based testing (proptest) with an independent reference encoder, metamorphic unknown-field splicing and differential fast/slow varint decoding",
)
CHECKS["C04"] = dict(
    engine="store-driver",
    category="exploration",
    text="Accept half: after every operation of generated histories (rollover ratios 1, 2, 8) an independent parser re-checks every manifest fragment: input == previous output, input == output + discard, discard == sum(removed) - sum(added), fragments chain through their roll-ups, final output == sum of listed digests, and each listed sst's name, stored setsum and setsum recomputed from a full walk agree; every verifier pass must accept or back off. Reject half: one hex digit of one recorded digest (+, -, I, O, D of a transaction, or the O of the roll-up that heads a fragment) is altered with the line CRC fixed up; ManifestVerifier must reject the fragment and, when the offline verifier processes that fragment on the genuine history, LsmVerifier must reject the tampered copy; and a GC output from which one policy-required entry was removed, with the whole later history re-balanced so that all equations still hold, must be rejected by the verifier's GC replay. Content-level reject half: for a generated history one output of one compaction (merge or GC) gets a policy-required entry dropped (also the whole output), a value modified or an entry duplicated into an extra output file, and the whole recorded history is re-balanced so that every setsum equation still holds; the verifier must reject. Half of the generated policies that are not versions = N (expiry leaves, any / all nesting) are kept in the content-level tampers.",
    design_ref="DESIGN.md §5 C04",
    note=STORE_NOTE + "",
    technique="stateful property-based testing with an independent balance checker (accept) and re-balanced single-entry / single-digit tampering (reject)",
)

CHECKS["C06"] = dict(
    engine="conc-store",
    category="exploration",
    text="Generated multi-threaded histories (2-4 clients, flush thread, 1-2 compaction threads, tiny memtables, generated perturbation at guard-only yield points) are recorded with invocation/response stamps and decided by an exact linearizability search (Wing-Gong/Lowe with memoisation) under a map model in which a batch is one atomic multi-key write and a scan one atomic range read; held scans are checked as atomic reads at their open time. The OS schedule is not owned, so a violation is exact while absence is weak evidence; that is the strongest level this technique reaches for lock-and-condvar code without rewriting its synchronisation primitives. Client programs include batches the store must refuse; nothing of them may become visible.",
    design_ref="DESIGN.md §5 C06",
    note="Values are unique per write. Search budget or watchdog expiry marks a case inconclusive. Replays re-run a case 30 times.",
    technique="property-based generation of concurrent programs + exact linearizability checking of the recorded histories",
)

CHECKS["C19"] = dict(
    engine="pbt",
    category="exploration",
    text="Generated texts (empty, single symbol, all-equal, periodic, de-Bruijn-like, Fibonacci-like, random over alphabets of 1..4000 symbols incl. 0 and u32::MAX and the 254-257 symbol width switch) with generated record boundaries and needle families (substrings incl. across records, mutated, absent, empty, whole text): CompressedDocument and ReferenceDocument are each compared with a naive scan written in the harness for len, records, count, search, lookup, offset_of, retrieve, and again after pack/unpack; every exported BitVector implementation (rrr, cf_rrr, sparse incl. from_indices, reference) is compared with Vec<bool> for access / rank / select at all indices (small vectors) or at structure-size neighbourhoods (up to 50 000 bits), including out-of-range ranks; wavelet trees against a plain symbol vector. Ten further SA + ISA + PSI combinations run the same document queries; alphabets on both sides of 65 536 symbols; every building block (sais, psi constructors, reference and sampled SA / ISA with sampling exponents 0..64) against suffixes sorted in the harness. Part document-skewed-contexts: one context preceded by 18-22 symbols with Fibonacci multiplicities (Huffman codes of up to 21 bits).",
    design_ref="DESIGN.md §5 C19",
    note="Where the documentation is silent and both implementations agree, their common behaviour is adopted (recorded as assumptions in the evidence). More than 65 535 distinct symbols and texts of 2^32 symbols are out of reach.",
    technique="property-based testing (proptest) with a naive-scan reference model and a two-implementation differential",
)

CHECKS["C17"] = dict(
    engine="token-sched",
    category="exploration",
    text="Main part: a deterministic token scheduler runs 2-4 real threads of which exactly one holds the token; at every guard-only yield point (each atomic pointer load, store and CAS of skipfree / listfree) the next element of a proptest-generated schedule decides who runs next, tower heights come from the case, and an exact log gives, for every observation, the inserts completed before it began and started before it ended. Oracles: iterations strictly increasing with completed-before ⊆ seen ⊆ started-before; contains; seek/next/prev land on the nearest admissible key; final forward/backward iteration equals the inserted set; iterators held while the last list handle is dropped stay valid (allocation registry); prepend list: each element once, newest first, consistent with the CAS order. A real-thread stress part (2-8 writers x up to 10^4 keys, 1-4 readers) covers hardware memory ordering on this x86-64 machine. The stress readers end every forward iteration with one prev() on the same iterator: it must reach the greatest key whose insert had returned.",
    design_ref="DESIGN.md §5 C17",
    note="Token scheduling yields sequentially consistent executions at hook granularity only; orderings weaker than x86-TSO are out of reach. At most 4 threads x 6 inserts per scheduled case.",
    technique="property-based testing over generated (workload, schedule) pairs with a deterministic cooperative scheduler, plus generated multi-threaded stress",
)

CHECKS["C12"] = dict(
    engine="pbt",
    category="exploration",
    text="Generated-input search in four parts: (1) sequential round-trip - generated batch sequences whose fillers are computed from the builder's offset so that exactly 0..45 (up to 70 000) bytes remain before the next 1 MiB boundary, then probes that fit the remaining room +-delta, maximal batches, empty and over-full batches; LogIterator output, seal() setsum and the builder offsets are compared with the appended list and with the harness's own frame parser. (2) truncation - for each built image every cut length inside every split batch, padding, boundary neighbourhood and the last frames (up to 900 / 2500 cuts per case): the reader must yield exactly the batches that end before the cut and then end or fail, never panic. (3) concurrent append - 2-8 real threads through one ConcurrentLogBuilder<File> with write/fdatasync/fsync interposed in the harness binary, generated delays inside the calls and forced pile-ups; each batch once, whole, per-thread and real-time order kept, and each append returns only after an fdatasync covering its bytes completed. (4) hand-made frames with wrong CRCs / discriminants / lengths: no panic, only entries present in the input. Sizes x boundaries x schedules is unbounded, so sampling with boundary-computed generators is the appropriate level. Fifth part: errno injection (EIO / ENOSPC / short write at the k-th write or fdatasync) into LogBuilder and ConcurrentLogBuilder - nothing acknowledged may be unreadable or not covered by a successful sync; all convenience calls, WriteBatch insert / merge, LogOptions values and merged writes of exactly 1 MiB are exercised.",
    design_ref="DESIGN.md §5 C12",
    note="Durability is judged on intercepted libc calls (tmpfs persists nothing). Thread interleavings are those the OS produces under generated delays and forced pile-ups, not an exhaustive schedule enumeration. Logs stay far below the 1 GiB roll-over size.",
    technique="property-based testing (proptest): round-trip against the appended list and an independent frame parser, exhaustive-per-case truncation sweep, generated multi-threaded runs with libc interposition",
)

CHECKS["C09"] = dict(
    engine="pbt",
    category="exploration",
    text="Generated-input search over (pristine file, damage plan): ssts (vsst table generators + real builder), logs (LogBuilder + WriteBatch, some with split frames and padding) and manifests (real Manifest::apply) are written, every byte is tagged with its region by an independent format walker, and 1-3 damages {bit flip, byte overwrite, truncation, appended random / zero / same-file suffix, clustered next-byte damage} are drawn per region class so that final block, trailer, headers, CRC digits and separators are hit as often as data. Oracle: every observation (open, forward and backward walk, loads at several timestamps, metadata, LogIterator drain, log_to_setsum, ManifestIterator, Manifest::open) on the damaged file is an error or equals the pristine observation (a genuine prefix followed by an error is allowed; a clean short read only after a truncation); no panic (catch_unwind, aborts attributed through a signal handler); the largest single allocation (counting global allocator) stays within the documented bound. In addition, for a few generated files per run EVERY single-bit flip, EVERY truncation length and 0x00/0xff at EVERY offset are enumerated, and the committed fuzz seed corpus is replayed through the reference-free oracle of the libFuzzer targets. Also: log_to_builder, truncate_final_partial_frame and Manifest::verify on damaged files, damaged MANIFEST.N backups (the live state must be unaffected), cursor programs with reversals on damaged ssts, multi-byte damage runs.",
    design_ref="DESIGN.md §5 C09",
    note="Known finding R-O (unchecksummed sst final block: metadata()/fast_setsum() can change silently; entries and loads never do) is excluded by region tag in non-strict mode and counted. Damage that is itself well-formed content (an appended slice made of whole CRC-valid frames / lines of the same file) is outside the damage model. The cargo-fuzz targets under /verif/fuzz are a thorough-workflow extra, not part of the registered commands.",
    technique="property-based testing (proptest-generated files and region-aimed damage plans, per-file exhaustive single-damage enumeration) with a pristine-vs-damaged differential oracle, allocation and panic oracles; libFuzzer corpus replay",
)

NOT_YET = {
}

def main():
    props = [json.loads(l) for l in open(os.path.join(HERE, "properties.jsonl"))]
    checks = []
    na = []
    for p in props:
        pid = p["id"]
        if pid in CHECKS:
            c = CHECKS[pid]
            checks.append({
                "property_id": pid,
                "quick_cmd": f"./check {pid} quick",
                "thorough_cmd": f"./check {pid} thorough",
                "evidence_file": f"/verif/evidence/{pid}.json",
                "replay_cmd_template": "./replay {path}",
                "engine": c["engine"],
                "level_claimed": {"category": c["category"], "text": c["text"], "design_ref": c["design_ref"]},
                "level_note": c["note"],
                "technique": c["technique"],
            })
        else:
            na.append({"property_id": pid, "reason": NOT_YET.get(pid, "check under construction in this round; not claimed until its quick tier runs clean on the unchanged tree")})
    manifest = {
        "version": 1,
        "setup_cmd": "cd /verif/harness && CARGO_NET_OFFLINE=true cargo build --release --offline --workspace",
        "hooks": {
            "guard": "rescrv_blue_verif",
            "enable": "rustc --cfg rescrv_blue_verif, set for every harness build by /verif/harness/.cargo/config.toml ([build] rustflags); the harness crates depend on /repo's crates by path, so each check rebuilds them from /repo's working tree",
            "baseline_off_cmd": "cd /repo && cargo nextest run --workspace --no-fail-fast --test-threads 8 --offline || cargo test --workspace --no-fail-fast --offline",
            "source_commits": repo_commits(),
            "add_only": True,
        },
        "engines": [
            {"name": "store-driver", "path": "harness/vstore/src/driver.rs", "serves_properties": sorted(k for k, v in CHECKS.items() if v["engine"] == "store-driver"), "kind_free_text": "single-threaded model-based step driver over KeyValueStore / LsmTree: generated op vectors interpreted against the real store (per-case directory on tmpfs) and an in-memory model; flush, compaction step, verifier pass and reopen are ops thanks to the step hooks"},
            {"name": "sysshim", "path": "harness/vstore/src/shim.rs", "serves_properties": ["C02", "C08", "C13"], "kind_free_text": "in-binary interposition of libc entry points (open/open64, write, pwrite64, fsync, fdatasync, ftruncate64, rename, link/linkat, unlink/unlinkat, mkdir, rmdir, close) forwarded through dlsym(RTLD_NEXT): counts and traces mutating calls under the store root, _exits before call k with optional loss of unsynced bytes, or fails call k with EIO/ENOSPC; driven by crash.rs / manicheck.rs with child processes"},
            {"name": "conc-store", "path": "harness/vstore/src/threads.rs", "serves_properties": ["C06", "C07", "C20"], "kind_free_text": "real OS threads against one store: generated client programs, flush and compaction threads, invocation/response stamping, generated perturbation at guard-only yield points, WGL linearizability checker (wgl.rs), exact all-parked stall detector from guard-only parked/notify/progress counters"},
            {"name": "token-sched", "path": "harness/c17/src/sched.rs", "serves_properties": ["C17"], "kind_free_text": "deterministic scheduler for lock-free code: N OS threads, one token, hand-over at every guard-only yield point according to a generated, shrinkable schedule vector; exact happened-before log"},
            {"name": "conc", "path": "harness/c18/src/conc.rs", "serves_properties": ["C18"], "kind_free_text": "real OS threads running generated per-thread programs with generated delays / CPU pinning, invariant oracles, and an exact all-parked stall detector (per-thread /proc syscall state + context-switch counters)"},
            {"name": "pbt", "path": "harness/vcore", "serves_properties": sorted(CHECKS.keys()), "kind_free_text": "proptest TestRunner driven from per-property binaries; 16 worker processes, fixed case counts, seeds derived from VERIF_SEED; shrinking; JSON replay files; evidence written by the parent process"},
        ],
        "checks": checks,
        "not_applicable": na,
        "notes": "All checks are property-based tests / fuzzers with explicit oracles (see DESIGN.md). ./check <ID> <tier> rebuilds against /repo and exits 0 / 1 (VIOLATION line) / 2 (inconclusive). Known findings live in known_findings.json; saved regression cases in regressions/<ID>/ are replayed by every run.",
    }
    with open(os.path.join(HERE, "MANIFEST.json"), "w") as f:
        json.dump(manifest, f, indent=1)
        f.write("\n")
    try:
        import jsonschema
        schema = json.load(open("/root/.vp/MANIFEST.schema.json"))
        jsonschema.validate(manifest, schema)
        es = json.load(open("/root/.vp/EVIDENCE.schema.json"))
        evdir = os.path.join(HERE, "evidence")
        if os.path.isdir(evdir):
            for fn in sorted(os.listdir(evdir)):
                try:
                    jsonschema.validate(json.load(open(os.path.join(evdir, fn))), es)
                    print("evidence ok:", fn, "" if fn[:-5] in CHECKS else "(not claimed yet)")
                except Exception as e:
                    print("evidence INVALID:", fn, str(e).splitlines()[0], "" if fn[:-5] in CHECKS else "(not claimed yet)")
        print("manifest ok:", len(checks), "checks,", len(na), "not_applicable")
    except ImportError:
        print("jsonschema not available; wrote manifest without validation")

if __name__ == "__main__":
    main()
