#!/bin/bash
# usage: tools/seed_sweep.sh <seed> [IDs...] — runs quick checks with VERIF_SEED=<seed>, outputs to a scratch dir
seed="${1:?}"; shift
ids="${*:-C01 C02 C03 C04 C05 C06 C07 C08 C09 C10 C11 C12 C13 C14 C15 C16 C17 C18 C19 C20}"
out="/tmp/verif-sweep-$seed"; mkdir -p "$out"
for id in $ids; do
  VERIF_SEED=$seed VERIF_OUT_DIR="$out" /verif/check "$id" quick > "$out/$id.log" 2>&1
  echo "$id seed=$seed exit=$? $(grep -E 'tier=' "$out/$id.log" | tail -1)"
done
