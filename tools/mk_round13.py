#!/usr/bin/env python3
"""Round 8 prompts: the seeder is told what kind of tool it is up against (randomised model-based
testing, crash / error injection, thread stress) and asked to aim at what such generators rarely reach."""
import re, os, glob, json
BASE = {"C14f":"C14e","C15f":"C15e","C16f":"C16e","C17f":"C17e","C18f":"C18e","C19f":"C19e","C10g":"C10f","C11g":"C11f"}
for name, old in BASE.items():
    pid = name[:3]
    kept = []
    for d in sorted(glob.glob(f"/verif/seeded/{pid}-*")):
        m = json.load(open(d + "/meta.json"))
        kept.append(" ".join(m.get("summary", "").split())[:220])
    avoid = "Earlier exercises already covered these changes (do not repeat them or close variants): " + " // ".join(f'"{k}"' for k in kept) + "."
    ideas = ("anything in the code this property depends on. Assume the verification tool you are up against is good at the obvious: it runs randomised model-based histories with a handful of short keys and small values, mostly ordinary option values, compares every read with a model, injects crashes and I/O errors at system calls, and stress-tests with a few threads. Aim at what such generators RARELY REACH: code paths taken only for particular sizes or counts (a value or key at or near a documented maximum, a size that crosses an internal threshold such as a block, buffer, varint-width, level or fan-out boundary, more than 255 / 65535 of something), rarely used public entry points or option values, fallback and slow paths, the second or third occurrence of an event (a second roll-over, a third reopen, a re-entry after an error), interactions of two features that are each tested alone, arithmetic at the edge of a type. The change must still be a real violation of the property as stated, not of some stronger reading")
    s = open(f"/tmp/prompt-{old}.txt").read().replace(f"mut-{old}", f"mut-{name}")
    s2 = re.sub(r"(looks like a plausible mistake a maintainer could make in a refactor or micro-optimisation\. ).*?( No `panic!`)", lambda m: m.group(1) + avoid + " Choose a DIFFERENT area, for example: " + ideas + "." + m.group(2), s, flags=re.S)
    pass
    open(f"/tmp/prompt-{name}.txt", "w").write(s2)
    print(name, len(s2))
