#!/bin/bash
# usage: tools/new_seed_wt.sh <property-id> <worktree-name>  — scratch worktree of /repo for a seeding sub-agent,
# holding nothing from /verif except the text of the one property (in _out/PROPERTY.txt).
set -eu
ID="${1:?}"; NAME="${2:?}"; WT="/tmp/mut-$NAME"
git -C /repo worktree add --detach "$WT" HEAD >/dev/null 2>&1
mkdir -p "$WT/_out/demo"
python3 - "$ID" "$WT/_out/PROPERTY.txt" <<'PY'
import json, sys
for l in open('/verif/properties.jsonl'):
    p = json.loads(l)
    if p['id'] == sys.argv[1]:
        with open(sys.argv[2], 'w') as f:
            f.write(f"{p['id']}: {p['title']}\n\n{p['statement']}\n\nQuantified over: {p['quantifier']['text']}\n\nAnchors: files {p['anchors']['files']}\n")
            for m in p['anchors'].get('mechanism', []):
                f.write(f"  mechanism: {m['name']} ({m['where']})\n")
PY
echo "$WT"
