#!/usr/bin/env python3
"""Prints the DESIGN.md §12.2 table from /verif/seeded/*/meta.json (the full text of each change is
in its meta.json; this table is the index of which check catches which change).
With --write, replaces the block between the SEEDED-TABLE markers in DESIGN.md."""
import json, glob, os, sys
rows = []
for d in sorted(glob.glob("/verif/seeded/*")):
    m = json.load(open(os.path.join(d, "meta.json")))
    c = m.get("confirmed_by_me", {})
    def cell(s, n):
        s = " ".join(str(s).split()).replace("|", "\\|")
        return s if len(s) <= n else s[: n - 1] + "…"
    rows.append(f"| `{os.path.basename(d)}` | {cell(m.get('needs_to_manifest',''), 170)} | {cell(c.get('caught_by','—'), 420)} |")
table = "| seeded change (see `seeded/<name>/meta.json`) | needs, to manifest | caught by (quick tier, against a scratch copy with the change applied) |\n|---|---|---|\n" + "\n".join(rows) + "\n"
if "--write" in sys.argv:
    p = "/verif/DESIGN.md"
    s = open(p).read()
    a, b = "<!-- SEEDED-TABLE-BEGIN -->\n", "<!-- SEEDED-TABLE-END -->\n"
    i, j = s.index(a) + len(a), s.index(b)
    open(p, "w").write(s[:i] + table + s[j:])
    print("DESIGN.md updated:", len(rows), "rows")
else:
    print(table)
