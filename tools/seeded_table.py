#!/usr/bin/env python3
"""Prints the DESIGN.md §12.2 table from /verif/seeded/*/meta.json."""
import json, glob, os
rows = []
for d in sorted(glob.glob("/verif/seeded/*")):
    m = json.load(open(os.path.join(d, "meta.json")))
    c = m.get("confirmed_by_me", {})
    def cell(s, n=260):
        s = " ".join(str(s).split()).replace("|", "\\|")
        return s if len(s) <= n else s[: n - 1] + "…"
    rows.append(f"| `{os.path.basename(d)}` | {m.get('property')} | {cell(m.get('summary',''), 330)} | {cell(m.get('needs_to_manifest',''), 260)} | {cell(c.get('caught_by','—'), 300)} |")
print("| seeded change | property | what was changed | what it needs to manifest | caught by (quick tier) |")
print("|---|---|---|---|---|")
print("\n".join(rows))
