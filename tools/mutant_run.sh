#!/bin/bash
# usage: tools/mutant_run.sh <scratch-repo-dir> <ID> [tier]
# Sensitivity tooling (never used by registered commands): builds a scratch copy of the harness
# whose path dependencies point into <scratch-repo-dir> instead of /repo, and runs the check for
# <ID> with evidence/replays redirected to <scratch-repo-dir>/_verif_out.
set -u
SCRATCH="$(cd "${1:?scratch repo}" && pwd)"; ID="${2:?property id}"; TIER="${3:-quick}"
HERE="$(cd "$(dirname "$0")/.." && pwd)"
H="$SCRATCH/_harness"
mkdir -p "$H" "$SCRATCH/_verif_out"
rsync -a --delete --exclude target "$HERE/harness/" "$H/"
find "$H" -name Cargo.toml -not -path "*/target/*" -exec sed -i "s#\"/repo/#\"$SCRATCH/#g" {} +
case "$ID" in
  C14) CRATE=c14 ;; C15) CRATE=c15 ;; C16) CRATE=c16 ;; C18) CRATE=c18 ;; C19) CRATE=c19 ;; C17) CRATE=c17 ;;
  C10|C11) CRATE=vsst ;;
  C09) CRATE=c09 ;;
  C12) CRATE=c12 ;;
  C01|C02|C03|C04|C05|C06|C07|C08|C13|C20) CRATE=vstore ;;
  *) echo "unknown property $ID" >&2; exit 2 ;;
esac
cd "$H" || exit 2
log=$(CARGO_NET_OFFLINE=true cargo build --release --offline -p "$CRATE" 2>&1) || { echo "$log" | tail -30; echo "BUILD FAILED"; exit 3; }
cd "$HERE" || exit 2
VERIF_OUT_DIR="$SCRATCH/_verif_out" exec "$H/target/release/$CRATE" run "$ID" --tier "$TIER"
