//! C09 libFuzzer target: the input is the whole content of an SST file.
//!
//! Oracle (reference-free, see harness/c09/src/bytes_oracle.rs): no panic / abort; the forward
//! walk is strictly ordered (key ascending, timestamp descending); when both walks succeed the
//! backward walk is the reverse of the forward walk; every walked entry is found by `load`;
//! `metadata()` names the first and last walked key.  The setsum / timestamp fields of the
//! un-checksummed final block are not compared with the contents (known finding R-O).
#![no_main]

use libfuzzer_sys::fuzz_target;

#[path = "../../harness/c09/src/bytes_oracle.rs"]
#[allow(dead_code)]
mod bytes_oracle;

fn scratch() -> std::path::PathBuf {
    let d = std::path::PathBuf::from(format!("/dev/shm/c09-fuzz-{}", std::process::id()));
    let _ = std::fs::create_dir_all(&d);
    d
}

fuzz_target!(|data: &[u8]| {
    let path = scratch().join("f.sst");
    std::fs::write(&path, data).expect("write");
    let v = bytes_oracle::sst_file(&path, data.len());
    let _ = std::fs::remove_file(&path);
    if let Err((sig, msg)) = v {
        panic!("{sig}: {msg}");
    }
});
