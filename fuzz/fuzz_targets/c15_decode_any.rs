//! C15 libFuzzer target: decode the input as every message type of the C15 family.
//!
//! Oracle: no panic; a successfully decoded value packs to exactly `pack_sz()` bytes and those
//! bytes decode to an equal value (floats bitwise) with nothing left over.
//!
//! Known findings are excluded unless `C15_FUZZ_STRICT` is set: R-R (an enum/Result-typed message
//! field with bytes after its first field makes prototk assert) by the independent predicate
//! `oneof_tail_trigger`, R-Q (float wire type) by skipping the re-encode check for `Floats`.
#![no_main]
#![allow(dead_code)]

use libfuzzer_sys::fuzz_target;

#[path = "../../harness/c15/src/model.rs"]
mod model;
#[path = "../../harness/c15/src/types.rs"]
mod types;

use model::*;
use types::{decode, encode, schema, serror_from_text};

fuzz_target!(|data: &[u8]| {
    let strict = std::env::var_os("C15_FUZZ_STRICT").is_some();
    for id in ALL_IDS {
        if !strict && oneof_tail_trigger(schema, id, data) {
            continue;
        }
        let Ok((v, _rem)) = decode(id, data) else { continue };
        if !strict && has_float(schema, id) {
            continue;
        }
        let mut texts = vec![];
        err_texts(&v, &mut texts);
        if !texts.iter().all(|t| serror_from_text(t).map(|e| e.to_string()).as_deref() == Some(*t)) {
            continue;
        }
        let e = encode(id, &v);
        assert_eq!(e.pack_sz, e.bytes.len(), "pack_sz != bytes written for {id:?} {v:?}");
        assert!(e.sliced == e.bytes && e.appended == e.bytes && e.streamed == e.bytes, "pack variants differ for {id:?} {v:?}");
        match decode(id, &e.bytes) {
            Ok((v2, 0)) if v2 == v => {}
            other => panic!("{id:?}: input {data:?} decodes to {v:?}, which packs to {:?} and decodes to {other:?}", e.bytes),
        }
    }
});
