//! C15 libFuzzer target: decode the input as every message type of the C15 family.
//!
//! Oracle: no panic; a successfully decoded value packs to exactly `pack_sz()` bytes and those
//! bytes decode to an equal value (floats bitwise) with nothing left over.
//!
#![no_main]
#![allow(dead_code)]

use libfuzzer_sys::fuzz_target;

#[path = "../../harness/c15/src/model.rs"]
mod model;
#[path = "../../harness/c15/src/types.rs"]
mod types;

use model::*;
use types::{decode, encode, schema, serror_from_text};

fuzz_target!(|data: &[u8]| {
    for id in ALL_IDS {
        let Ok((v, _rem)) = decode(id, data) else { continue };
        let mut texts = vec![];
        err_texts(&v, &mut texts);
        if !texts.iter().all(|t| serror_from_text(t).map(|e| e.to_string()).as_deref() == Some(*t)) {
            continue;
        }
        let e = encode(id, &v);
        assert_eq!(e.pack_sz, e.bytes.len(), "pack_sz != bytes written for {id:?} {v:?}");
        assert!(e.sliced == e.bytes && e.appended == e.bytes && e.streamed == e.bytes, "pack variants differ for {id:?} {v:?}");
        match decode(id, &e.bytes) {
            Ok((v2, 0)) if v2 == v => {}
            other => panic!("{id:?}: input {data:?} decodes to {v:?}, which packs to {:?} and decodes to {other:?}", e.bytes),
        }
    }
});
