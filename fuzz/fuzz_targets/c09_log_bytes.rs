//! C09 libFuzzer target: the input is the whole content of a write-ahead log.
//!
//! Oracle: draining `LogIterator` never panics, never returns more payload than the file holds,
//! and never requests a single allocation above the limit.  The limit defaults to the documented
//! bound 2 x TABLE_FULL_SIZE (+ slack); set C09_FUZZ_ALLOC_LIMIT_MB=64 to make the target report
//! candidate finding R-T (frame size trusted up to TABLE_FULL_SIZE) as a crash.
#![no_main]

use std::alloc::{GlobalAlloc, Layout, System};
use std::sync::atomic::{AtomicUsize, Ordering};

use libfuzzer_sys::fuzz_target;

#[path = "../../harness/c09/src/bytes_oracle.rs"]
#[allow(dead_code)]
mod bytes_oracle;

static LIMIT: AtomicUsize = AtomicUsize::new(usize::MAX);
static PEAK: AtomicUsize = AtomicUsize::new(0);

struct Counting;

unsafe impl GlobalAlloc for Counting {
    unsafe fn alloc(&self, l: Layout) -> *mut u8 {
        PEAK.fetch_max(l.size(), Ordering::Relaxed);
        if l.size() > LIMIT.load(Ordering::Relaxed) {
            return std::ptr::null_mut();
        }
        unsafe { System.alloc(l) }
    }
    unsafe fn alloc_zeroed(&self, l: Layout) -> *mut u8 {
        PEAK.fetch_max(l.size(), Ordering::Relaxed);
        if l.size() > LIMIT.load(Ordering::Relaxed) {
            return std::ptr::null_mut();
        }
        unsafe { System.alloc_zeroed(l) }
    }
    unsafe fn realloc(&self, p: *mut u8, l: Layout, n: usize) -> *mut u8 {
        PEAK.fetch_max(n, Ordering::Relaxed);
        if n > LIMIT.load(Ordering::Relaxed) {
            return std::ptr::null_mut();
        }
        unsafe { System.realloc(p, l, n) }
    }
    unsafe fn dealloc(&self, p: *mut u8, l: Layout) {
        unsafe { System.dealloc(p, l) }
    }
}

#[global_allocator]
static GLOBAL: Counting = Counting;

fn limit() -> usize {
    static L: std::sync::OnceLock<usize> = std::sync::OnceLock::new();
    *L.get_or_init(|| match std::env::var("C09_FUZZ_ALLOC_LIMIT_MB").ok().and_then(|s| s.parse::<usize>().ok()) {
        Some(mb) => mb << 20,
        None => 2 * sst::TABLE_FULL_SIZE + (64 << 20),
    })
}

fuzz_target!(|data: &[u8]| {
    // the refusal (null -> abort) is armed only while the reader runs
    LIMIT.store(limit(), Ordering::Relaxed);
    let v = bytes_oracle::log_bytes(data);
    LIMIT.store(usize::MAX, Ordering::Relaxed);
    if let Err((sig, msg)) = v {
        panic!("{sig}: {msg}");
    }
});
