//! C09 libFuzzer target: the input is the whole content of a MANIFEST file.
//!
//! Oracle: `ManifestIterator` never panics and returns no more edits than the file has lines;
//! `Manifest::open` on a directory holding the file succeeds exactly when the iteration is clean.
#![no_main]

use libfuzzer_sys::fuzz_target;

#[path = "../../harness/c09/src/bytes_oracle.rs"]
#[allow(dead_code)]
mod bytes_oracle;

fuzz_target!(|data: &[u8]| {
    let dir = std::path::PathBuf::from(format!("/dev/shm/c09-fuzz-{}/m", std::process::id()));
    if let Err((sig, msg)) = bytes_oracle::manifest_bytes(data, &dir) {
        panic!("{sig}: {msg}");
    }
});
